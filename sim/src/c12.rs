//! C12 — checksum qualifier: one canonical text, typed round trip, order independence.
//!
//! The iteration order of the `HashMap` inside `Checksum` is the nondeterminism under control:
//! every scenario is executed once per hash plan, against a `BTreeMap` reference model.

use std::collections::BTreeMap;
use std::str::FromStr;

use purl::qualifiers::well_known::Checksum;
#[cfg(purl_verif)]
use purl::verif::{install_hash_plan, maps_created, HashMode};
use purl::{GenericPurl, GenericPurlBuilder};
use serde::{Deserialize, Serialize};
use serde_json::json;

use crate::core::{clip, guarded, Log, Sim, Stats, Violation};
use crate::gen::{encode_component, MUST_QUALIFIER_VALUE};
use crate::rng::{Fnv, Rng};
use crate::{ev, violation, SmallStr};

#[derive(Clone, Copy, Debug, PartialEq, Eq, Serialize, Deserialize)]
pub enum Mode {
    Keyed,
    Constant,
    LenOnly,
    FirstByte,
    KeyedPerInstance,
}

impl Mode {
    #[cfg(purl_verif)]
    fn to_hook(self) -> HashMode {
        match self {
            Mode::Keyed => HashMode::Keyed,
            Mode::Constant => HashMode::Constant,
            Mode::LenOnly => HashMode::LenOnly,
            Mode::FirstByte => HashMode::FirstByte,
            Mode::KeyedPerInstance => HashMode::KeyedPerInstance,
        }
    }

    fn name(self) -> &'static str {
        match self {
            Mode::Keyed => "hash_mode.keyed",
            Mode::Constant => "hash_mode.constant",
            Mode::LenOnly => "hash_mode.len_only",
            Mode::FirstByte => "hash_mode.first_byte",
            Mode::KeyedPerInstance => "hash_mode.keyed_per_instance",
        }
    }
}

#[derive(Clone, Copy, Debug, PartialEq, Eq, Serialize, Deserialize)]
pub struct HashPlan {
    pub mode: Mode,
    pub key: u64,
}

#[derive(Clone, Debug, PartialEq, Eq, Serialize, Deserialize)]
pub enum Op {
    /// `Checksum::insert(alg, bytes)`; bytes given as lower-case hex in the scenario.
    Insert { alg: String, bytes_hex: String },
    /// `Checksum::insert_raw(alg, hex)`; valid hex, any letter case.
    InsertRaw { alg: String, hex: String },
    /// `Checksum::remove(alg)`; lower-case spelling only.
    Remove { alg: String },
    /// Replace the value by its clone and go on.
    CloneAndContinue,
    /// Replace the value by a fresh one filled with `insert_raw` in the current iteration order.
    RebuildFromIteration,
    /// `other.clone_from(&value)` into a value that already holds these (other) entries; go on with `other`.
    CloneFromInto { stale: Vec<(String, String)> },
    /// A fault between two operations: on a scratch value (and through the parser) a conversion that
    /// is refused because `bad_alg` carries invalid hex, while `good_alg` is well-formed. Its outcome is
    /// not judged (invalid hex is outside C12); what follows must be unaffected by it.
    RefusedConversion { good_alg: String, bad_alg: String, bad_hex: String },
    /// Serialise a clone, parse the text back, compare with the model (also done at the end).
    RoundTripText,
    /// Put the value into a builder (typed, or as respelled text) and build (also done at the end).
    ViaBuilder { typed: bool },
    /// Spell a PURL string carrying the checksum and parse it (also done at the end).
    ViaParser,
}

#[derive(Clone, Debug, PartialEq, Eq, Serialize, Deserialize)]
pub struct Scenario {
    pub hash_plans: Vec<HashPlan>,
    pub ops: Vec<Op>,
    /// Order (indices into the sorted final entry set, taken modulo its size, duplicates skipped)
    /// in which the final entries are inserted again into a fresh value.
    pub alt_order: Vec<usize>,
    /// Drives the letter-case variants used for that second insertion (0 = as stored).
    pub alt_case_seed: u64,
    /// Drives the respelling of the text at PURL level: entry order, letter case, escaping (0 = plain).
    pub spell_seed: u64,
}

pub struct C12;

type Model = BTreeMap<String, String>;

fn lower(s: &str) -> String {
    s.chars().flat_map(char::to_lowercase).collect()
}

fn model_text(model: &Model) -> String {
    let mut out = String::new();
    for (i, (alg, hex)) in model.iter().enumerate() {
        if i > 0 {
            out.push(',');
        }
        out.push_str(alg);
        out.push(':');
        out.push_str(hex);
    }
    out
}

fn unhex(h: &str) -> Vec<u8> {
    let d = |c: u8| match c {
        b'0'..=b'9' => c - b'0',
        b'a'..=b'f' => c - b'a' + 10,
        b'A'..=b'F' => c - b'A' + 10,
        _ => 0,
    };
    h.as_bytes().chunks(2).filter(|p| p.len() == 2).map(|p| d(p[0]) << 4 | d(p[1])).collect()
}

/// What `iter()` yields, in iteration order.
fn observe(c: &Checksum<'_>) -> Vec<(String, String)> {
    c.iter().map(|(alg, value)| (alg.to_owned(), value.raw().to_owned())).collect()
}

fn as_model(entries: &[(String, String)]) -> Vec<(String, String)> {
    let mut v: Vec<(String, String)> =
        entries.iter().map(|(a, h)| (a.clone(), h.to_ascii_lowercase())).collect();
    v.sort();
    v
}

fn model_vec(model: &Model) -> Vec<(String, String)> {
    model.iter().map(|(a, h)| (a.clone(), h.clone())).collect()
}

fn check_state(c: &Checksum<'_>, model: &Model, at: &str) -> Result<Vec<(String, String)>, Violation> {
    let entries = guarded(|| observe(c)).map_err(|p| violation!("C12.panic_in_iter", "{at}: iter() panicked: {p}"))?;
    if as_model(&entries) != model_vec(model) {
        return Err(violation!(
            "C12.entries_differ_from_model",
            "{at}: iter() yields {:?}, reference model holds {:?}",
            entries,
            model
        ));
    }
    let mut algs = guarded(|| c.algorithms().map(str::to_owned).collect::<Vec<_>>())
        .map_err(|p| violation!("C12.panic_in_algorithms", "{at}: algorithms() panicked: {p}"))?;
    algs.sort();
    if algs != model.keys().cloned().collect::<Vec<_>>() {
        return Err(violation!(
            "C12.algorithms_differ_from_model",
            "{at}: algorithms() yields {:?}, reference model has {:?}",
            algs,
            model.keys().collect::<Vec<_>>()
        ));
    }
    // (through `Deref` of the value here, through `raw()` in `observe`)
    let via_into_iter = guarded(|| c.into_iter().map(|(alg, value)| (alg.to_owned(), (*value).to_owned())).collect::<Vec<_>>())
        .map_err(|p| violation!("C12.panic_in_iter", "{at}: into_iter() panicked: {p}"))?;
    // Both are documented as unordered: compare as sets.
    if as_model(&via_into_iter) != as_model(&entries) {
        return Err(violation!(
            "C12.into_iter_differs_from_iter",
            "{at}: (&checksum).into_iter() yields {:?}, iter() yields {:?}",
            via_into_iter,
            entries
        ));
    }
    for (alg, hex) in model {
        let decoded = guarded(|| c.get::<Vec<u8>>(alg))
            .map_err(|p| violation!("C12.panic_in_get", "{at}: get({alg:?}) panicked: {p}"))?;
        let via_value = guarded(|| c.get_value(alg).map(|v| v.decode::<Vec<u8>>()))
            .map_err(|p| violation!("C12.panic_in_get", "{at}: get_value({alg:?}) panicked: {p}"))?;
        let expected = unhex(hex);
        if !matches!(&decoded, Ok(Some(b)) if *b == expected) || !matches!(&via_value, Some(Ok(b)) if *b == expected) {
            return Err(violation!(
                "C12.decode_differs_from_inserted_bytes",
                "{at}: entry {alg:?} holds the bytes {hex}, get() = {:?}, get_value().decode() = {:?}",
                decoded.map_err(|e| e.to_string()),
                via_value.map(|r| r.map_err(|e| e.to_string()))
            ));
        }
        let got = guarded(|| c.get_raw(alg).map(str::to_owned))
            .map_err(|p| violation!("C12.panic_in_get_raw", "{at}: get_raw({alg:?}) panicked: {p}"))?;
        if got.as_deref().map(str::to_ascii_lowercase).as_deref() != Some(hex.as_str()) {
            return Err(violation!(
                "C12.get_raw_differs_from_model",
                "{at}: get_raw({alg:?}) = {got:?}, reference model has {hex:?}"
            ));
        }
    }
    Ok(entries)
}

/// Serialise a clone; `Ok(None)` when the entry set is empty and the library refused it.
fn serialise(c: &Checksum<'_>, model: &Model, at: &str) -> Result<Option<String>, Violation> {
    let copy = c.clone();
    let result = guarded(move || SmallStr::try_from(copy)).map_err(|p| {
        violation!(
            "C12.panic_in_serialize",
            "{at}: converting a checksum with entries {:?} to text panicked: {p}",
            model
        )
    })?;
    if model.is_empty() {
        // Neither Ok("") nor an error is ruled out by the property for the empty set.
        return Ok(None);
    }
    let expected = model_text(model);
    match result {
        Ok(t) if t.as_str() == expected => Ok(Some(t.as_str().to_owned())),
        Ok(t) => Err(violation!(
            "C12.text_differs_from_model",
            "{at}: text form is {:?}, but sorted by lower-cased algorithm with lower-case hex it is {:?}",
            t.as_str(),
            expected
        )),
        Err(e) => Err(violation!(
            "C12.serialize_refused_valid_entries",
            "{at}: converting valid entries {:?} to text failed: {e}",
            model
        )),
    }
}

fn parse_back(text: &str, model: &Model, at: &str) -> Result<(), Violation> {
    let parsed = guarded(|| Checksum::try_from(text))
        .map_err(|p| violation!("C12.panic_in_parse", "{at}: parsing {text:?} panicked: {p}"))?;
    let parsed = parsed.map_err(|e| {
        violation!("C12.canonical_text_refused", "{at}: the canonical text {text:?} does not parse back: {e}")
    })?;
    let entries = guarded(|| observe(&parsed))
        .map_err(|p| violation!("C12.panic_in_iter", "{at}: iter() after parse panicked: {p}"))?;
    if as_model(&entries) != model_vec(model) {
        return Err(violation!(
            "C12.parse_back_differs",
            "{at}: {text:?} parses back to {:?}, expected the entries {:?}",
            entries,
            model
        ));
    }
    let again = guarded(move || SmallStr::try_from(parsed))
        .map_err(|p| violation!("C12.panic_in_serialize", "{at}: re-serialising parsed {text:?} panicked: {p}"))?;
    match again {
        Ok(t) if t.as_str() == text => Ok(()),
        other => Err(violation!(
            "C12.reserialised_text_differs",
            "{at}: parsing {text:?} and serialising again gives {:?}",
            other.map(|t| t.as_str().to_owned()).map_err(|e| e.to_string())
        )),
    }
}

/// The 31 titlecase letters of Unicode (general category Lt).
const TITLECASE: &[char] = &[
    '\u{01C5}', '\u{01C8}', '\u{01CB}', '\u{01F2}', '\u{1F88}', '\u{1F89}', '\u{1F8A}', '\u{1F8B}', '\u{1F8C}', '\u{1F8D}',
    '\u{1F8E}', '\u{1F8F}', '\u{1F98}', '\u{1F99}', '\u{1F9A}', '\u{1F9B}', '\u{1F9C}', '\u{1F9D}', '\u{1F9E}', '\u{1F9F}',
    '\u{1FA8}', '\u{1FA9}', '\u{1FAA}', '\u{1FAB}', '\u{1FAC}', '\u{1FAD}', '\u{1FAE}', '\u{1FAF}', '\u{1FBC}', '\u{1FCC}',
    '\u{1FFC}',
];

/// The titlecase letter that lower-cases to exactly `c`, if there is one.
fn titlecase_partner(c: char) -> Option<char> {
    if c.is_ascii() {
        return None;
    }
    TITLECASE.iter().copied().find(|t| {
        let mut low = t.to_lowercase();
        low.next() == Some(c) && low.next().is_none()
    })
}

/// A spelling of `alg` in another letter case that lower-cases back to `alg` (or `alg` itself).
fn case_variant(alg: &str, rng: &mut Rng) -> String {
    let candidate: String = alg
        .chars()
        .map(|c| {
            if rng.chance(1, 2) {
                // "Letter case" has three values for some letters: the digraphs and the Greek
                // letters with iota subscript also have a titlecase form (general category Lt),
                // which lower-cases to the same letter as the upper-case form does (r12c12-3: one
                // of two look-alike lower-casing helpers skipped exactly these). The extra draw is
                // made only for such letters, so every other scenario keeps its random stream.
                if let Some(t) = titlecase_partner(c) {
                    if rng.chance(1, 2) {
                        return t;
                    }
                }
                let mut up = c.to_uppercase();
                match (up.next(), up.next()) {
                    (Some(u), None) => u,
                    _ => c,
                }
            } else {
                c
            }
        })
        .collect();
    if lower(&candidate) == alg {
        candidate
    } else {
        alg.to_owned()
    }
}

fn hex_case_variant(hex: &str, rng: &mut Rng) -> String {
    hex.chars().map(|c| if rng.chance(1, 2) { c.to_ascii_uppercase() } else { c }).collect()
}

/// An equivalent spelling of the canonical text: entry order, algorithm case, hex case.
fn respell(model: &Model, seed: u64) -> String {
    if seed == 0 {
        return model_text(model);
    }
    let mut rng = Rng::new(seed);
    let mut entries = model_vec(model);
    rng.shuffle(&mut entries);
    let parts: Vec<String> = entries
        .iter()
        .map(|(a, h)| format!("{}:{}", case_variant(a, &mut rng), hex_case_variant(h, &mut rng)))
        .collect();
    parts.join(",")
}

fn check_purl_level<T>(
    purl: &GenericPurl<T>,
    model: &Model,
    at: &str,
) -> Result<(), Violation> {
    let expected = model_text(model);
    let got = purl.qualifiers().get("checksum").map(str::to_owned);
    if got.as_deref() != Some(expected.as_str()) {
        return Err(violation!(
            "C12.purl_text_not_canonical",
            "{at}: the PURL carries checksum={got:?}, the canonical text is {expected:?}"
        ));
    }
    let typed = guarded(|| purl.qualifiers().try_get_typed::<Checksum>().map(|o| o.map(|c| observe(&c))))
        .map_err(|p| violation!("C12.panic_in_typed_accessor", "{at}: try_get_typed panicked: {p}"))?;
    match typed {
        Ok(Some(entries)) if as_model(&entries) == model_vec(model) => Ok(()),
        other => Err(violation!(
            "C12.typed_accessor_differs",
            "{at}: reading the checksum back through the typed accessor gives {:?}, expected {:?}",
            other.map_err(|e| e.to_string()),
            model
        )),
    }
}

fn via_builder(c: &Checksum<'_>, model: &Model, typed: bool, spell_seed: u64, at: &str, log: &mut Log) -> Result<(), Violation> {
    // The builder the checksum goes into is not always a fresh one: depending on the scenario it
    // already holds other qualifiers - some with empty values, sorting before and after `checksum` -
    // and, for the typed lane, an older checksum that the new one has to replace.
    let surroundings = (spell_seed >> 8) % 6;
    let mut builder = GenericPurlBuilder::new(String::from("generic"), "n");
    let around: &[(&str, &str)] = match surroundings {
        1 => &[("arch", "x"), ("build", "7"), ("zzz", "1")],
        2 => &[("a", "1"), ("b", ""), ("z", "")],
        3 => &[("arch", "x"), ("download_url", "https://example.com/a?b=c&d")],
        4 => &[("checksum", "ff:00,ee:11")],
        5 => &[("arch", ""), ("checksum", "old:00"), ("vcs_url", "git+https://example.com/r@1")],
        _ => &[],
    };
    // Keys that differ from `checksum` at a '_' or sort right next to it (another quarter of the runs).
    let around: &[(&str, &str)] = match (spell_seed >> 20) % 8 {
        0 => &[("check_only", "1"), ("checks", "2"), ("checksumz", "3")],
        1 => &[("_x", "1"), ("check_only", "1"), ("zzz", "")],
        _ => around,
    };
    for (k, v) in around {
        // An older checksum only makes sense where the new one replaces it (typed lane, or the text
        // lane, whose with_qualifier overwrites).
        builder = guarded(move || builder.with_qualifier(*k, *v))
            .map_err(|p| violation!("C12.panic_in_builder", "{at}: with_qualifier({k:?}) panicked: {p}"))?
            .map_err(|e| violation!("C12.builder_refused_valid_checksum", "{at}: with_qualifier({k:?}, {v:?}) failed: {e}"))?;
    }
    if model.is_empty() {
        // The empty set over an older checksum (typed lane): whether the empty set is accepted is not
        // judged, but if it is accepted and the build succeeds, the older entries must not be readable
        // any more - "reading it back through the typed accessor gives the same entries".
        if typed && around.iter().any(|(k, _)| *k == "checksum") {
            let copy = c.clone();
            let accepted = guarded(move || builder.try_with_typed_qualifier(Some(copy)))
                .map_err(|p| violation!("C12.panic_in_serialize", "{at}: try_with_typed_qualifier with no entries panicked: {p}"))?;
            if let Ok(b) = accepted {
                let built = guarded(move || b.build()).map_err(|p| violation!("C12.panic_in_build", "{at}: build() panicked: {p}"))?;
                if let Ok(purl) = built {
                    if let Some(stale) = purl.qualifiers().get("checksum") {
                        return Err(violation!(
                            "C12.typed_accessor_differs",
                            "{at}: a checksum with no entries was set over an older one and accepted, yet the PURL still carries checksum={stale:?}"
                        ));
                    }
                }
            }
            ev!(log, "{at} builder typed empty over an older checksum");
            return Ok(());
        }
        // Otherwise keep the lane as it was for the empty set.
        builder = GenericPurlBuilder::new(String::from("generic"), "n");
    } else if (spell_seed >> 12) % 3 == 0 {
        // A removal before the checksum goes in: the first of the surrounding qualifiers.
        if let Some((first, _)) = around.iter().find(|(k, _)| *k != "checksum") {
            let via_entry = (spell_seed >> 16) % 2 == 0;
            builder = guarded(move || {
                if via_entry {
                    // The same removal through the Entry API on the builder's public parts.
                    let mut b = builder;
                    if let Ok(purl::qualifiers::Entry::Occupied(o)) = b.parts.qualifiers.entry(*first) {
                        o.remove();
                    }
                    b
                } else {
                    builder.without_qualifier(*first)
                }
            })
            .map_err(|p| violation!("C12.panic_in_builder", "{at}: removing {first:?} panicked: {p}"))?;
        }
    }
    ev!(log, "{at} builder surroundings {around:?}");
    let builder = if typed {
        let copy = c.clone();
        let r = guarded(move || builder.try_with_typed_qualifier(Some(copy))).map_err(|p| {
            violation!("C12.panic_in_serialize", "{at}: try_with_typed_qualifier with entries {:?} panicked: {p}", model)
        })?;
        if model.is_empty() {
            ev!(log, "{at} builder typed empty -> {}", if r.is_ok() { "accepted" } else { "refused" });
            return Ok(());
        }
        r.map_err(|e| violation!("C12.builder_refused_valid_checksum", "{at}: try_with_typed_qualifier refused {:?}: {e}", model))?
    } else {
        if model.is_empty() {
            return Ok(());
        }
        let text = respell(model, spell_seed);
        let key = if spell_seed % 3 == 1 { "CheckSum" } else { "checksum" };
        ev!(log, "{at} builder text {key}={text:?}");
        guarded(move || builder.with_qualifier(key, text))
            .map_err(|p| violation!("C12.panic_in_builder", "{at}: with_qualifier panicked: {p}"))?
            .map_err(|e| violation!("C12.builder_refused_valid_checksum", "{at}: with_qualifier(checksum) failed: {e}"))?
    };
    let purl = guarded(move || builder.build())
        .map_err(|p| violation!("C12.panic_in_build", "{at}: build() panicked: {p}"))?
        .map_err(|e| violation!("C12.build_refused_valid_checksum", "{at}: build() refused a PURL with checksum entries {:?}: {e}", model))?;
    ev!(log, "{at} built {}", purl);
    check_purl_level(&purl, model, at)?;
    reparse_printed(&purl.to_string(), model, at)?;

    // The other built-in type parameters carry the checksum the same way.
    {
        use std::borrow::Cow;
        let text = respell(model, spell_seed);
        // "Built with a checksum qualifier" also means: written into the builder's public
        // `parts.qualifiers` without going through `with_qualifier` (r13c12-1 canonicalised in
        // with_qualifier and in the parser instead of in build()).
        let route = (spell_seed >> 24) % 6;
        let built = guarded(move || {
            let mut b = GenericPurlBuilder::new(Cow::Borrowed("Generic"), "n");
            match route {
                0 => {
                    b.parts.qualifiers.insert("checksum", text.as_str())?;
                },
                1 => {
                    b = b.with_qualifier("checksum", "x:00")?;
                    b.parts.qualifiers["checksum"] = text.as_str().into();
                },
                2 => {
                    if let Ok(e) = b.parts.qualifiers.entry("checksum") {
                        *e.or_insert("") = text.as_str().into();
                    }
                },
                3 => {
                    b.parts.qualifiers = purl::qualifiers::Qualifiers::try_from_iter([("arch", "x"), ("checksum", text.as_str())])?;
                },
                _ => b = b.with_qualifier("checksum", text)?,
            }
            b.build()
        })
        .map_err(|p| violation!("C12.panic_in_build", "{at}: the Cow<str> builder panicked: {p}"))?
        .map_err(|e| violation!("C12.build_refused_valid_checksum", "{at}: the Cow<str> builder refused checksum entries {:?}: {e}", model))?;
        check_purl_level(&built, model, at)?;
        #[cfg(feature = "full")]
        {
            let text = respell(model, spell_seed);
            let built = guarded(move || {
                GenericPurlBuilder::new(purl::SmallString::from("generic"), "n").with_qualifier("checksum", text).and_then(|b| b.build())
            })
            .map_err(|p| violation!("C12.panic_in_build", "{at}: the SmallString builder panicked: {p}"))?
            .map_err(|e| violation!("C12.build_refused_valid_checksum", "{at}: the SmallString builder refused checksum entries {:?}: {e}", model))?;
            check_purl_level(&built, model, at)?;
        }
    }

    #[cfg(feature = "full")]
    {
        use purl::{PackageType, PurlBuilder};
        let text = respell(model, spell_seed);
        let built = guarded(move || {
            let mut b = PurlBuilder::new(PackageType::Cargo, "n");
            if surroundings % 2 == 1 {
                b = b.with_qualifier("arch", "")?.with_qualifier("vcs_url", "x")?;
            }
            b.with_qualifier("checksum", text).and_then(|b| {
                b.build().map_err(|e| match e {
                    purl::PackageError::Parse(p) => p,
                    _ => purl::ParseError::InvalidPackageType,
                })
            })
        })
        .map_err(|p| violation!("C12.panic_in_build", "{at}: typed PurlBuilder panicked: {p}"))?
        .map_err(|e| violation!("C12.build_refused_valid_checksum", "{at}: PurlBuilder refused checksum entries {:?}: {e}", model))?;
        check_purl_level(&built, model, at)?;
    }
    Ok(())
}

fn reparse_printed(printed: &str, model: &Model, at: &str) -> Result<(), Violation> {
    let again = guarded(|| GenericPurl::<String>::from_str(printed))
        .map_err(|p| violation!("C12.panic_in_parse", "{at}: parsing {printed:?} panicked: {p}"))?
        .map_err(|e| violation!("C12.printed_purl_refused", "{at}: the printed PURL {printed:?} is refused: {e}"))?;
    check_purl_level(&again, model, &format!("{at} (printed form {printed:?} parsed again)"))
}

fn via_parser(model: &Model, spell_seed: u64, at: &str, log: &mut Log) -> Result<(), Violation> {
    if model.is_empty() {
        return Ok(());
    }
    let text = respell(model, spell_seed);
    let mut rng = Rng::new(spell_seed ^ 0x5eed);
    let value = encode_component(&text, MUST_QUALIFIER_VALUE, &mut rng, spell_seed == 0);
    let key = match spell_seed % 4 {
        1 => "Checksum",
        2 => "CHECKSUM",
        _ => "checksum",
    };
    let input = match spell_seed % 5 {
        0 => format!("pkg:generic/n?{key}={value}"),
        1 => format!("pkg:generic/n?a=1&{key}={value}&z=2"),
        2 => format!("pkg:generic/n@1?z=2&{key}={value}#sub"),
        3 => format!("pkg:generic/ns/n?{key}={value}&a=1&check_only=1&_x=2&checks=3&checksumz=4"),
        _ => format!("pkg:GENERIC/n?empty=&{key}={value}"),
    };
    ev!(log, "{at} parse {input:?}");
    let purl = guarded(|| GenericPurl::<String>::from_str(&input))
        .map_err(|p| violation!("C12.panic_in_parse", "{at}: parsing {input:?} panicked: {p}"))?
        .map_err(|e| {
            violation!("C12.parser_refused_valid_checksum", "{at}: {input:?} (checksum entries {:?}) is refused: {e}", model)
        })?;
    check_purl_level(&purl, model, &format!("{at} input {input:?}"))?;
    reparse_printed(&purl.to_string(), model, at)?;
    #[cfg(feature = "full")]
    {
        let purl = guarded(|| GenericPurl::<purl::SmallString>::from_str(&input))
            .map_err(|p| violation!("C12.panic_in_parse", "{at}: parsing {input:?} as GenericPurl<SmallString> panicked: {p}"))?
            .map_err(|e| violation!("C12.parser_refused_valid_checksum", "{at}: {input:?} is refused as GenericPurl<SmallString>: {e}"))?;
        check_purl_level(&purl, model, &format!("{at} input {input:?} (SmallString)"))?;
    }
    #[cfg(feature = "full")]
    {
        let typed_input = input.replacen("generic", "npm", 1).replacen("GENERIC", "NPM", 1);
        let purl = guarded(|| purl::Purl::from_str(&typed_input))
            .map_err(|p| violation!("C12.panic_in_parse", "{at}: parsing {typed_input:?} panicked: {p}"))?
            .map_err(|e| violation!("C12.parser_refused_valid_checksum", "{at}: {typed_input:?} is refused: {e}"))?;
        check_purl_level(&purl, model, &format!("{at} input {typed_input:?}"))?;
    }
    Ok(())
}

/// Log an operation with the observed iteration order (abbreviated for large entry sets).
fn log_entries(log: &mut Log, at: &str, op: Option<&Op>, entries: &[(String, String)]) {
    if entries.len() <= 12 {
        ev!(log, "{at} {op:?} -> {entries:?}");
    } else {
        let mut h = Fnv::default();
        for (a, x) in entries {
            h.write(a.as_bytes());
            h.write(b":");
            h.write(x.as_bytes());
            h.write(b",");
        }
        ev!(log, "{at} {op:?} -> {} entries, order digest {:016x}", entries.len(), h.finish());
    }
}

fn perm_index(sorted: &[(String, String)], observed: &[(String, String)]) -> usize {
    // Lehmer code of the observed order relative to the sorted one.
    let mut pool: Vec<&String> = sorted.iter().map(|e| &e.0).collect();
    let mut index = 0;
    for (alg, _) in observed {
        let pos = pool.iter().position(|a| *a == alg).unwrap_or(0);
        index = index * pool.len() + pos;
        pool.remove(pos);
    }
    index
}

struct PlanResult {
    final_text: Option<String>,
    mid_texts: Vec<Option<String>>,
    final_order: Vec<String>,
}

fn run_plan(sc: &Scenario, plan_no: usize, plan: HashPlan, log: &mut Log, stats: &mut Stats) -> Result<PlanResult, Violation> {
    // Without the hook (the Miri lane) the plan is only a label: every map instance then takes
    // its keys from the real std RandomState, which Miri derives from its own seed.
    #[cfg(purl_verif)]
    install_hash_plan(plan.mode.to_hook(), plan.key);
    stats.bump(plan.mode.name());
    ev!(log, "plan {plan_no} {:?} key={:#x}", plan.mode, plan.key);
    let mut model = Model::new();
    let mut c = Checksum::default();
    let mut mid_texts = Vec::new();
    for (i, op) in sc.ops.iter().enumerate() {
        let at = format!("plan {plan_no} op {i}");
        let before = model.len();
        match op {
            Op::Insert { alg, bytes_hex } => {
                let bytes = unhex(bytes_hex);
                let key = lower(alg);
                if model.contains_key(&key) {
                    stats.bump(if model.contains_key(alg) { "overwrite.same_case" } else { "overwrite.case_variant" });
                }
                model.insert(key.clone(), bytes_hex.to_ascii_lowercase());
                let b2 = bytes.clone();
                guarded(|| c.insert(alg, b2)).map_err(|p| violation!("C12.panic_in_insert", "{at}: insert({alg:?}) panicked: {p}"))?;
                let got = guarded(|| c.get::<Vec<u8>>(&key))
                    .map_err(|p| violation!("C12.panic_in_get", "{at}: get({key:?}) panicked: {p}"))?;
                if !matches!(&got, Ok(Some(b)) if *b == bytes) {
                    return Err(violation!(
                        "C12.decode_differs_from_inserted_bytes",
                        "{at}: after insert({alg:?}, {bytes_hex}) get({key:?}) = {:?}",
                        got.map_err(|e| e.to_string())
                    ));
                }
            },
            Op::InsertRaw { alg, hex } => {
                let key = lower(alg);
                if model.contains_key(&key) {
                    stats.bump(if model.contains_key(alg) { "overwrite.same_case" } else { "overwrite.case_variant" });
                }
                model.insert(key, hex.to_ascii_lowercase());
                let h = hex.clone();
                guarded(|| c.insert_raw(alg, h)).map_err(|p| violation!("C12.panic_in_insert", "{at}: insert_raw({alg:?}) panicked: {p}"))?;
            },
            Op::Remove { alg } => {
                if model.remove(alg).is_some() && model.is_empty() {
                    stats.bump("remove_to_empty");
                }
                guarded(|| c.remove(alg)).map_err(|p| violation!("C12.panic_in_remove", "{at}: remove({alg:?}) panicked: {p}"))?;
            },
            Op::CloneAndContinue => {
                c = guarded(|| c.clone()).map_err(|p| violation!("C12.panic_in_clone", "{at}: clone panicked: {p}"))?;
            },
            Op::CloneFromInto { stale } => {
                let mut other = Checksum::default();
                for (alg, hex) in stale {
                    other.insert_raw(alg, hex.clone());
                }
                guarded(|| other.clone_from(&c)).map_err(|p| violation!("C12.panic_in_clone", "{at}: clone_from panicked: {p}"))?;
                c = other;
            },
            Op::RebuildFromIteration => {
                let entries = guarded(|| observe(&c)).map_err(|p| violation!("C12.panic_in_iter", "{at}: iter() panicked: {p}"))?;
                let mut fresh = Checksum::default();
                for (alg, hex) in entries {
                    guarded(|| fresh.insert_raw(&alg, hex))
                        .map_err(|p| violation!("C12.panic_in_insert", "{at}: insert_raw({alg:?}) panicked: {p}"))?;
                }
                c = fresh;
            },
            Op::RefusedConversion { good_alg, bad_alg, bad_hex } => {
                let mut scratch = Checksum::default();
                scratch.insert_raw(good_alg, "00ff".to_owned());
                scratch.insert_raw(bad_alg, bad_hex.clone());
                let typed = guarded(move || SmallStr::try_from(scratch).is_ok())
                    .map_err(|p| violation!("C12.panic_in_serialize", "{at}: converting a checksum with invalid hex {bad_hex:?} panicked: {p}"))?;
                let input = format!("pkg:generic/n?checksum={good_alg}:00ff,{bad_alg}:{bad_hex}");
                let parsed = guarded(|| GenericPurl::<String>::from_str(&input).is_ok())
                    .map_err(|p| violation!("C12.panic_in_parse", "{at}: parsing {input:?} panicked: {p}"))?;
                stats.bump("refused_conversion_injected");
                ev!(log, "{at} refused conversion injected: typed accepted={typed} parser accepted={parsed}");
            },
            Op::RoundTripText => {
                let t = serialise(&c, &model, &at)?;
                if let Some(t) = &t {
                    parse_back(t, &model, &at)?;
                }
                ev!(log, "{at} text {:?}", t);
                mid_texts.push(t);
            },
            Op::ViaBuilder { typed } => via_builder(&c, &model, *typed, sc.spell_seed, &at, log)?,
            Op::ViaParser => via_parser(&model, sc.spell_seed, &at, log)?,
        }
        for threshold in [3usize, 7, 14, 28, 56, 112, 224, 255, 256] {
            if before <= threshold && model.len() > threshold {
                stats.bump("growth_threshold_crossed");
            }
        }
        // In long histories the full state comparison runs on every 8th operation (and at the end);
        // the cheap part (entry set through iter()) runs always.
        if sc.ops.len() <= 24 || (sc.ops.len() <= 100 && i % 8 == 7) || i % 64 == 63 {
            let entries = check_state(&c, &model, &at)?;
            log_entries(log, &at, Some(op), &entries);
        } else if sc.ops.len() > 100 {
            // Huge histories: between the full comparisons only the size is looked at.
            let n = guarded(|| c.iter().count()).map_err(|p| violation!("C12.panic_in_iter", "{at}: iter() panicked: {p}"))?;
            if n != model.len() {
                return Err(violation!("C12.entries_differ_from_model", "{at}: iter() yields {n} entries, reference model holds {}", model.len()));
            }
        } else {
            let entries = guarded(|| observe(&c)).map_err(|p| violation!("C12.panic_in_iter", "{at}: iter() panicked: {p}"))?;
            if as_model(&entries) != model_vec(&model) {
                return Err(violation!(
                    "C12.entries_differ_from_model",
                    "{at}: iter() yields {:?}, reference model holds {:?}",
                    entries,
                    model
                ));
            }
            log_entries(log, &at, Some(op), &entries);
        }
    }

    // Final checks, always.
    let at = format!("plan {plan_no} final");
    let entries = check_state(&c, &model, &at)?;
    let final_order: Vec<String> = entries.iter().map(|e| e.0.clone()).collect();
    let final_text = serialise(&c, &model, &at)?;
    ev!(log, "{at} order {final_order:?} text {final_text:?}");
    if let Some(t) = &final_text {
        parse_back(t, &model, &at)?;
    }
    via_builder(&c, &model, true, sc.spell_seed, &at, log)?;
    via_builder(&c, &model, false, sc.spell_seed, &at, log)?;
    via_parser(&model, sc.spell_seed, &at, log)?;

    // The same final entry set, inserted into a fresh value in another order and letter case.
    if !model.is_empty() {
        let sorted = model_vec(&model);
        let mut order: Vec<usize> = Vec::new();
        for i in &sc.alt_order {
            let i = i % sorted.len();
            if !order.contains(&i) {
                order.push(i);
            }
        }
        for i in 0..sorted.len() {
            if !order.contains(&i) {
                order.push(i);
            }
        }
        let mut rng = Rng::new(sc.alt_case_seed);
        let mut fresh = Checksum::default();
        for (n, i) in order.iter().enumerate() {
            let (alg, hex) = &sorted[*i];
            let spelled = if sc.alt_case_seed == 0 { alg.clone() } else { case_variant(alg, &mut rng) };
            if n % 2 == 0 {
                let h = if sc.alt_case_seed == 0 { hex.clone() } else { hex_case_variant(hex, &mut rng) };
                guarded(|| fresh.insert_raw(&spelled, h))
                    .map_err(|p| violation!("C12.panic_in_insert", "{at}: insert_raw({spelled:?}) panicked: {p}"))?;
            } else {
                let bytes = unhex(hex);
                guarded(|| fresh.insert(&spelled, bytes))
                    .map_err(|p| violation!("C12.panic_in_insert", "{at}: insert({spelled:?}) panicked: {p}"))?;
            }
        }
        let at2 = format!("{at} (entries inserted again in order {order:?})");
        check_state(&fresh, &model, &at2)?;
        let alt_text = serialise(&fresh, &model, &at2)?;
        if alt_text != final_text {
            return Err(violation!(
                "C12.text_depends_on_insertion_order",
                "{at2}: text {:?} differs from the text of the original insertion order {:?}",
                alt_text,
                final_text
            ));
        }
        ev!(log, "{at} alt order {order:?} same text");
        stats.bump("insertion_order_permuted");
    }

    // Reach probes.
    let sorted = model_vec(&model);
    let n = sorted.len();
    if (2..=4).contains(&n) {
        stats.bump_dyn(format!("perm.n{n}.{:02}", perm_index(&sorted, &entries)));
    }
    let mut h = Fnv::default();
    for (a, x) in &sorted {
        h.write(a.as_bytes());
        h.write(b":");
        h.write(x.as_bytes());
        h.write(b",");
    }
    h.write(b"|");
    for a in &final_order {
        h.write(a.as_bytes());
        h.write(b",");
    }
    stats.reach(h.finish());
    #[cfg(purl_verif)]
    stats.add("maps_created", maps_created());
    Ok(PlanResult { final_text, mid_texts, final_order })
}

impl Sim for C12 {
    type Scenario = Scenario;

    fn id(&self) -> &'static str {
        "C12"
    }

    fn generate(&self, seed: u64) -> Scenario {
        let mut rng = Rng::new(seed);
        const ALGS: &[&str] = &[
            "sha1", "SHA1", "Sha1", "md5", "MD5", "sha256", "SHA256", "a:b", "A:B", "x-1", "X-1", "é",
            "É", "ǆ", "Ǆ", "ǅ", "", "İ", "a&b", "A&B", "a b", "a%b", "a#b", "a?b", "a+b", "a=b", "日本",
            "sha512", "b", "B", "c", "aa", "ab", "Ab", "ba", "blake2b-256", "😀", "blake2b-512", "BLAKE2B-256",
            "blake2b-384", "sha3-256", "sha3-512", "sha512-256", "sha512-224", "SHA512-256", "sha512-256x",
            "sha-1", "sha_1", "sha1 ", " sha1", "sha1:", ":sha1", "a:b:c", "ss", "ß", "ẞ", "ǈ", "ǉ", "k", "K",
            "a_b", "A_B", "a^b", "a[b", "a`b", "a{b", "a~b", "a\\b",
            // Capital sigma: char-wise lower-casing gives σ everywhere, a context-sensitive one would
            // give the final form ς at the end of a word and so split the case variants of one name.
            "ΟΔΟΣ", "οδοσ", "οδος", "Σ", "σ", "ς", "ΑΣ", "ασ", "ΑΣ1", "Σα",
            // Around the inline capacity of small strings (23 bytes), and a long name.
            "abcdefghijklmnopqrstuv", "abcdefghijklmnopqrstuvw", "abcdefghijklmnopqrstuvwx", "ABCDEFGHIJKLMNOPQRSTUVWX",
            "a-very-long-algorithm-name-0123456789-0123456789-0123456789-0123456789-x",
            "\tsha1", "\u{3000}sha1", "sha1\t",
            // ASCII capitals after a non-ASCII character, and a non-ASCII capital after an ASCII one.
            // Characters that other layers treat as separators or escapes.
            "sha1;v2", "a;b", "crc%32", "a%41", "%ff", "50%", "%", "%%", "a%2Cb", "a%2cb", "a'b", "a\"b", "a|b", "a\u{7f}b", "a\u{0}b",
            "éB", "éb", "ßX", "ßx", "漢字Sum", "漢字sum", "résumé-SHA", "XÉ", "xé", "GOST-Э", "gost-э", "AΣ",
        ];
        const MODES: &[Mode] = &[
            Mode::Keyed,
            Mode::Keyed,
            Mode::KeyedPerInstance,
            Mode::KeyedPerInstance,
            Mode::Constant,
            Mode::LenOnly,
            Mode::FirstByte,
        ];
        let plans = rng.range(2, 4);
        let plans_cap_for_huge = 2;
        let hash_plans =
            (0..plans).map(|_| HashPlan { mode: *rng.pick(MODES), key: rng.next_u64() }).collect();
        // Swarm: size and mix vary per run.
        // One run in 1500 is huge: 260-330 inserts of distinct names (more entries than a byte can
        // count), two hash plans, no other operations.
        let huge = rng.chance(1, 1500);
        let large = huge || rng.chance(1, 50);
        let n_ops = if huge {
            rng.range(260, 330)
        } else if large {
            if rng.chance(1, 2) {
                rng.range(25, 70)
            } else {
                // Insert-heavy runs that end near a power of two of entries.
                *rng.pick(&[15usize, 16, 17, 18, 31, 32, 33, 34, 63, 64, 65, 66, 100])
            }
        } else {
            match rng.below(10) {
                0 => 0,
                1..=3 => rng.range(1, 3),
                4..=7 => rng.range(3, 8),
                8 => rng.range(8, 12),
                _ => rng.range(12, 22),
            }
        };
        // Large runs draw from a generated family (common prefixes, two letter cases) so that the
        // entry count crosses the growth thresholds 14, 28 and 56 of std's HashMap.
        let generated: Vec<String> = if huge {
            (0..340).map(|i| if i % 3 == 0 { format!("H{i}") } else { format!("h{i}") }).collect()
        } else if large {
            (0..48)
                .flat_map(|i| [format!("alg{i}"), format!("ALG{i}")])
                .chain((0..16).map(|i| format!("sha512-{i:03}")))
                .collect()
        } else {
            Vec::new()
        };
        let universe_size = if large { generated.len() } else { *rng.pick(&[2usize, 3, 5, 8, ALGS.len()]) };
        let universe: Vec<&str> = {
            let mut u: Vec<&str> =
                if large { generated.iter().map(String::as_str).collect() } else { ALGS.to_vec() };
            rng.shuffle(&mut u);
            u.truncate(universe_size);
            u
        };
        let remove_weight = if large { 0 } else { rng.below(3) };
        let mut ops = Vec::new();
        let alg = |rng: &mut Rng| -> String {
            if rng.chance(1, 12) {
                // A random short string without ','.
                let n = rng.range(1, 4);
                (0..n).map(|_| *rng.pick(&['a', 'B', 'c', ':', '-', 'é', 'Z', '1', ' ', '/'])).collect()
            } else {
                (*rng.pick(&universe)).to_owned()
            }
        };
        let hex = |rng: &mut Rng, mixed: bool| -> String {
            let len = *rng.pick(&[0usize, 1, 1, 2, 4, 8, 11, 12, 16, 20, 32, 48, 63, 64, 65, 100, 128, 129]);
            let mut s = String::new();
            for _ in 0..len * 2 {
                let digits: &[u8] = if mixed && rng.chance(1, 2) { b"0123456789ABCDEF" } else { b"0123456789abcdef" };
                s.push(*rng.pick(digits) as char);
            }
            s
        };
        for n in 0..n_ops {
            if huge {
                // Distinct names, mostly short values.
                let name = universe[n % universe.len()].to_owned();
                let value = if n % 7 == 0 { String::new() } else { format!("{:02X}{:02x}", n % 256, (n * 7) % 256) };
                ops.push(Op::InsertRaw { alg: name, hex: value });
                continue;
            }
            let op = match rng.below(14 + remove_weight * 2) {
                0..=4 => Op::Insert { alg: alg(&mut rng), bytes_hex: hex(&mut rng, false) },
                5..=8 => Op::InsertRaw { alg: alg(&mut rng), hex: hex(&mut rng, true) },
                9 => match rng.below(3) {
                    0 => Op::CloneAndContinue,
                    1 => Op::RebuildFromIteration,
                    _ => {
                        let n = rng.range(1, 3);
                        Op::CloneFromInto { stale: (0..n).map(|_| (lower(&alg(&mut rng)), hex(&mut rng, true))).collect() }
                    },
                },
                10 => {
                    if rng.chance(1, 2) {
                        Op::RoundTripText
                    } else {
                        Op::RefusedConversion {
                            good_alg: (*rng.pick(&["aaa", "0", "sha1", "a"])).to_owned(),
                            bad_alg: (*rng.pick(&["zzz", "zz", "sha9", "~"])).to_owned(),
                            bad_hex: (*rng.pick(&["0", "zz", "0g", "abc", "-"])).to_owned(),
                        }
                    }
                },
                11 => Op::ViaBuilder { typed: rng.chance(1, 2) },
                12 => Op::ViaParser,
                _ => Op::Remove { alg: lower(&alg(&mut rng)) },
            };
            ops.push(op);
        }
        let alt_len = rng.range(0, 8);
        let alt_order = rng.permutation(alt_len);
        let mut hash_plans: Vec<HashPlan> = hash_plans;
        if huge {
            hash_plans.truncate(plans_cap_for_huge);
        }
        Scenario {
            hash_plans,
            ops,
            alt_order,
            alt_case_seed: if rng.chance(1, 5) { 0 } else { rng.subseed() },
            spell_seed: if rng.chance(1, 5) { 0 } else { rng.subseed() },
        }
    }

    fn execute(&self, sc: &Scenario, log: &mut Log, stats: &mut Stats) -> Result<bool, Violation> {
        let mut results = Vec::new();
        for (n, plan) in sc.hash_plans.iter().enumerate() {
            results.push(run_plan(sc, n, *plan, log, stats)?);
        }
        // Across hash plans: identical text.
        let mut orders_differ = false;
        if let Some(first) = results.first() {
            for (n, r) in results.iter().enumerate().skip(1) {
                if r.final_text != first.final_text || r.mid_texts != first.mid_texts {
                    return Err(violation!(
                        "C12.text_differs_across_hash_plans",
                        "the same operations give text {:?} under hash plan 0 ({:?}) and {:?} under hash plan {n} ({:?})",
                        first.final_text,
                        sc.hash_plans[0],
                        r.final_text,
                        sc.hash_plans[n]
                    ));
                }
                if r.final_order != first.final_order {
                    orders_differ = true;
                }
            }
        }
        let entries = results.first().map(|r| r.final_order.len()).unwrap_or(0);
        if orders_differ {
            stats.bump("runs_with_differing_iteration_orders");
        }
        Ok(entries >= 2 && orders_differ)
    }

    fn shrink_candidates(&self, sc: &Scenario) -> Vec<Scenario> {
        let mut out = Vec::new();
        // Fewer hash plans.
        if sc.hash_plans.len() > 2 {
            for i in 0..sc.hash_plans.len() {
                let mut s = sc.clone();
                s.hash_plans.remove(i);
                out.push(s);
            }
        }
        if sc.hash_plans.len() == 2 {
            for i in 0..2 {
                let mut s = sc.clone();
                s.hash_plans = vec![sc.hash_plans[i]];
                out.push(s);
            }
        }
        // Fewer operations: halves first, then single ones.
        if sc.ops.len() > 3 {
            let mid = sc.ops.len() / 2;
            let mut a = sc.clone();
            a.ops.truncate(mid);
            out.push(a);
            let mut b = sc.clone();
            b.ops.drain(..mid);
            out.push(b);
        }
        for i in 0..sc.ops.len() {
            let mut s = sc.clone();
            s.ops.remove(i);
            out.push(s);
        }
        // Simpler knobs.
        if sc.spell_seed != 0 {
            let mut s = sc.clone();
            s.spell_seed = 0;
            out.push(s);
        }
        if sc.alt_case_seed != 0 {
            let mut s = sc.clone();
            s.alt_case_seed = 0;
            out.push(s);
        }
        if !sc.alt_order.is_empty() {
            let mut s = sc.clone();
            s.alt_order.clear();
            out.push(s);
        }
        for (i, p) in sc.hash_plans.iter().enumerate() {
            if p.mode != Mode::Keyed || p.key != 0 {
                for simpler in [HashPlan { mode: Mode::Keyed, key: 0 }, HashPlan { mode: Mode::Constant, key: 0 }, HashPlan { mode: p.mode, key: p.key & 0xff }] {
                    if simpler != *p {
                        let mut s = sc.clone();
                        s.hash_plans[i] = simpler;
                        out.push(s);
                    }
                }
            }
        }
        // Simpler arguments.
        for (i, op) in sc.ops.iter().enumerate() {
            let simpler: Vec<Op> = match op {
                Op::Insert { alg, bytes_hex } => {
                    let mut v = Vec::new();
                    if bytes_hex.len() > 2 {
                        v.push(Op::Insert { alg: alg.clone(), bytes_hex: "00".into() });
                    }
                    if !bytes_hex.is_empty() && bytes_hex.len() <= 2 {
                        v.push(Op::Insert { alg: alg.clone(), bytes_hex: String::new() });
                    }
                    v
                },
                Op::InsertRaw { alg, hex } => {
                    let mut v = vec![Op::Insert { alg: alg.clone(), bytes_hex: hex.to_ascii_lowercase() }];
                    if hex.len() > 2 {
                        v.push(Op::InsertRaw { alg: alg.clone(), hex: "00".into() });
                    }
                    v
                },
                _ => Vec::new(),
            };
            for sop in simpler {
                let mut s = sc.clone();
                s.ops[i] = sop;
                out.push(s);
            }
        }
        out
    }

    fn rule(&self) -> &'static str {
        "A case is one scenario: 2-4 hash plans (mode + key for the seam behind Checksum's HashMap) x one list of 0-22 \
         insert/insert_raw/remove/clone/round-trip/builder/parser operations over a case-colliding algorithm universe, \
         plus an alternative insertion order and a respelling seed; every scenario is executed once per hash plan against \
         a BTreeMap reference model. Non-trivial: the final entry set has >= 2 entries AND at least two of the hash plans \
         produced different iteration orders of that same set. Distinct: distinct event-log digests among non-trivial runs \
         (the log contains every operation with the observed iteration order and every text)."
    }

    fn components(&self) -> serde_json::Value {
        json!({
            "real": ["purl (Checksum, Qualifiers, builder, parser, formatter)", "std::collections::HashMap table / probing / growth / iteration (hashbrown)", "hex", "smartstring (default build)"],
            "stub": ["hasher state of Checksum's HashMap: purl::verif::SimBuildHasher behind --cfg purl_verif instead of std RandomState/SipHash (the Miri lane of the thorough tier runs the real RandomState)"],
        })
    }

    fn assumptions(&self) -> Vec<String> {
        vec![
            "HashMap's observable contract does not depend on the hash function, so replacing SipHash+RandomState by the seam's keyed/degenerate hashers only changes which iteration orders occur".into(),
            "the reference model lower-cases algorithm names char-wise with char::to_lowercase; the universe avoids capital sigma, whose str::to_lowercase mapping is context-sensitive".into(),
            "not asserted (the property does not say): iteration order of iter()/algorithms(), lookups/removals with upper-case spellings, invalid hex through insert_raw, the text form of the empty entry set (only a panic is a violation there)".into(),
        ]
    }

    fn evidence_extra(&self, stats: &Stats, quick: bool) -> (serde_json::Value, Vec<String>) {
        let mut unmet = Vec::new();
        let mut perms = serde_json::Map::new();
        for (n, count) in [(2usize, 2usize), (3, 6), (4, 24)] {
            let mut hit = 0;
            for p in 0..count {
                if stats.get(&format!("perm.n{n}.{p:02}")) > 0 {
                    hit += 1;
                }
            }
            perms.insert(format!("n={n}"), json!(format!("{hit} of {count} iteration orders observed")));
            if hit < count {
                unmet.push(format!("only {hit} of {count} iteration orders of {n} entries were observed"));
            }
        }
        for mode in ["hash_mode.keyed", "hash_mode.constant", "hash_mode.len_only", "hash_mode.first_byte", "hash_mode.keyed_per_instance"] {
            if stats.get(mode) == 0 {
                unmet.push(format!("{mode} never used"));
            }
        }
        for probe in ["overwrite.case_variant", "remove_to_empty", "growth_threshold_crossed", "insertion_order_permuted", "runs_with_differing_iteration_orders", "refused_conversion_injected"] {
            if stats.get(probe) == 0 {
                unmet.push(format!("probe {probe} stuck at zero"));
            }
        }
        let _ = quick;
        (
            json!({
                "distinct_interleavings_measure": "distinct pairs (sorted final entry set, iteration order observed through iter() before serialisation)",
                "distinct_interleavings": stats.reach.len(),
                "iteration_order_probes": perms,
                "nondeterminism_kinds_fired": {
                    "hash plans executed by mode": {
                        "keyed": stats.get("hash_mode.keyed"),
                        "keyed_per_instance": stats.get("hash_mode.keyed_per_instance"),
                        "constant": stats.get("hash_mode.constant"),
                        "len_only": stats.get("hash_mode.len_only"),
                        "first_byte": stats.get("hash_mode.first_byte"),
                    },
                    "map instances created under a plan": stats.get("maps_created"),
                    "entry count crossed a std HashMap growth threshold (3/7/14)": stats.get("growth_threshold_crossed"),
                    "case-variant overwrite": stats.get("overwrite.case_variant"),
                    "same-case overwrite": stats.get("overwrite.same_case"),
                    "remove to empty": stats.get("remove_to_empty"),
                    "refused conversion (invalid hex on a scratch value and through the parser) injected between operations": stats.get("refused_conversion_injected"),
                    "final set re-inserted in permuted order / other case": stats.get("insertion_order_permuted"),
                    "runs in which two hash plans iterated the same set differently": stats.get("runs_with_differing_iteration_orders"),
                },
            }),
            unmet,
        )
    }
}

#[allow(dead_code)]
fn _clip_is_used(s: &str) -> std::borrow::Cow<'_, str> {
    clip(s, 10)
}
