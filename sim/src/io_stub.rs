//! Simulated byte sinks and sources with explicit fault plans. All faults are placed at byte
//! offsets of the stream, so that a fault lands at the same place of the data however the
//! code under test chops its output into calls; writes/reads are cut short so that the next
//! call starts exactly at the offset of a pending fault.

use std::fmt;
use std::io::{self, Read, Write};

use serde::{Deserialize, Serialize};

#[derive(Clone, Copy, Debug, PartialEq, Eq, Serialize, Deserialize)]
pub enum WFault {
    /// `ErrorKind::Interrupted`, once: transient, `write_all` retries it.
    Interrupted,
    /// A hard error on this call only; later calls succeed (transient ENOSPC / EIO).
    HardOnce,
    /// A hard error on this call and every later one (closed pipe).
    HardSticky,
    /// `Ok(0)`, once.
    WriteZero,
}

#[derive(Clone, Copy, Debug, PartialEq, Eq, Serialize, Deserialize)]
pub enum RFault {
    Interrupted,
    HardOnce,
    HardSticky,
    /// `Ok(0)` from here on: the stream is truncated at this byte.
    Eof,
}

#[derive(Clone, Debug)]
struct Pending<F> {
    offset: usize,
    kind: F,
    fired: bool,
}

#[derive(Clone, Debug, Default)]
pub struct IoStats {
    pub calls: u64,
    pub short: u64,
    pub interrupted: u64,
    pub hard_once: u64,
    pub hard_sticky: u64,
    pub zero_or_eof: u64,
    pub calls_after_sticky: u64,
}

impl IoStats {
    pub fn hard_fired(&self) -> bool {
        self.hard_once + self.hard_sticky + self.zero_or_eof > 0
    }
}

pub struct SimWriter {
    pub data: Vec<u8>,
    max_chunk: usize,
    faults: Vec<Pending<WFault>>,
    sticky: bool,
    pub stats: IoStats,
    /// (offset, kind) of every fault that fired, in firing order.
    pub fired: Vec<(usize, WFault)>,
}

impl SimWriter {
    pub fn new(max_chunk: usize, faults: &[(usize, WFault)]) -> Self {
        SimWriter {
            data: Vec::new(),
            max_chunk,
            faults: faults.iter().map(|(o, k)| Pending { offset: *o, kind: *k, fired: false }).collect(),
            sticky: false,
            stats: IoStats::default(),
            fired: Vec::new(),
        }
    }

    pub fn add_fault(&mut self, offset: usize, kind: WFault) {
        self.faults.push(Pending { offset, kind, fired: false });
    }

    /// Bytes pushed by the harness itself (document separators); never faulted.
    pub fn push_raw(&mut self, bytes: &[u8]) {
        self.data.extend_from_slice(bytes);
    }
}

impl Write for SimWriter {
    fn write(&mut self, buf: &[u8]) -> io::Result<usize> {
        self.stats.calls += 1;
        if self.sticky {
            self.stats.calls_after_sticky += 1;
            return Err(io::Error::new(io::ErrorKind::BrokenPipe, "simulated: sink closed"));
        }
        if buf.is_empty() {
            return Ok(0);
        }
        let pos = self.data.len();
        if let Some(f) = self.faults.iter_mut().find(|f| !f.fired && f.offset <= pos) {
            f.fired = true;
            self.fired.push((pos, f.kind));
            return match f.kind {
                WFault::Interrupted => {
                    self.stats.interrupted += 1;
                    Err(io::Error::new(io::ErrorKind::Interrupted, "simulated: interrupted"))
                },
                WFault::HardOnce => {
                    self.stats.hard_once += 1;
                    Err(io::Error::new(io::ErrorKind::Other, "simulated: transient device error"))
                },
                WFault::HardSticky => {
                    self.stats.hard_sticky += 1;
                    self.sticky = true;
                    Err(io::Error::new(io::ErrorKind::BrokenPipe, "simulated: sink closed"))
                },
                WFault::WriteZero => {
                    self.stats.zero_or_eof += 1;
                    Ok(0)
                },
            };
        }
        let mut n = buf.len();
        if self.max_chunk > 0 {
            n = n.min(self.max_chunk);
        }
        if let Some(next) = self.faults.iter().filter(|f| !f.fired).map(|f| f.offset).min() {
            n = n.min(next - pos);
        }
        if n < buf.len() {
            self.stats.short += 1;
        }
        self.data.extend_from_slice(&buf[..n]);
        Ok(n)
    }

    fn flush(&mut self) -> io::Result<()> {
        if self.sticky {
            return Err(io::Error::new(io::ErrorKind::BrokenPipe, "simulated: sink closed"));
        }
        Ok(())
    }
}

pub struct SimReader {
    data: Vec<u8>,
    pos: usize,
    max_chunk: usize,
    faults: Vec<Pending<RFault>>,
    sticky: bool,
    eof: bool,
    pub stats: IoStats,
    pub fired: Vec<(usize, RFault)>,
}

impl SimReader {
    pub fn new(data: Vec<u8>, max_chunk: usize, faults: &[(usize, RFault)]) -> Self {
        SimReader {
            data,
            pos: 0,
            max_chunk,
            faults: faults.iter().map(|(o, k)| Pending { offset: *o, kind: *k, fired: false }).collect(),
            sticky: false,
            eof: false,
            stats: IoStats::default(),
            fired: Vec::new(),
        }
    }
}

impl Read for SimReader {
    fn read(&mut self, buf: &mut [u8]) -> io::Result<usize> {
        self.stats.calls += 1;
        if self.sticky {
            self.stats.calls_after_sticky += 1;
            return Err(io::Error::new(io::ErrorKind::ConnectionReset, "simulated: source gone"));
        }
        if self.eof || buf.is_empty() {
            return Ok(0);
        }
        let pos = self.pos;
        if let Some(f) = self.faults.iter_mut().find(|f| !f.fired && f.offset <= pos) {
            f.fired = true;
            self.fired.push((pos, f.kind));
            return match f.kind {
                RFault::Interrupted => {
                    self.stats.interrupted += 1;
                    Err(io::Error::new(io::ErrorKind::Interrupted, "simulated: interrupted"))
                },
                RFault::HardOnce => {
                    self.stats.hard_once += 1;
                    Err(io::Error::new(io::ErrorKind::Other, "simulated: transient device error"))
                },
                RFault::HardSticky => {
                    self.stats.hard_sticky += 1;
                    self.sticky = true;
                    Err(io::Error::new(io::ErrorKind::ConnectionReset, "simulated: source gone"))
                },
                RFault::Eof => {
                    self.stats.zero_or_eof += 1;
                    self.eof = true;
                    Ok(0)
                },
            };
        }
        let mut n = buf.len().min(self.data.len() - pos);
        if self.max_chunk > 0 {
            n = n.min(self.max_chunk);
        }
        if let Some(next) = self.faults.iter().filter(|f| !f.fired).map(|f| f.offset).min() {
            n = n.min(next - pos);
        }
        if n < buf.len() && pos + n < self.data.len() {
            self.stats.short += 1;
        }
        buf[..n].copy_from_slice(&self.data[pos..pos + n]);
        self.pos += n;
        Ok(n)
    }
}

#[derive(Clone, Copy, Debug, PartialEq, Eq, Serialize, Deserialize)]
pub enum FmtFault {
    /// `fmt::Error` on the call that reaches the offset (the part before it is accepted), once.
    Once,
    /// Likewise, and every later call fails too.
    Sticky,
}

/// A `fmt::Write` sink with a fault plan (a fixed-capacity buffer, a closed channel, ...).
pub struct SimFmtSink {
    pub data: String,
    faults: Vec<Pending<FmtFault>>,
    sticky: bool,
    pub calls: u64,
    pub fired: Vec<(usize, FmtFault)>,
}

impl SimFmtSink {
    pub fn new(faults: &[(usize, FmtFault)]) -> Self {
        SimFmtSink {
            data: String::new(),
            faults: faults.iter().map(|(o, k)| Pending { offset: *o, kind: *k, fired: false }).collect(),
            sticky: false,
            calls: 0,
            fired: Vec::new(),
        }
    }
}

impl fmt::Write for SimFmtSink {
    fn write_str(&mut self, s: &str) -> fmt::Result {
        self.calls += 1;
        if self.sticky {
            return Err(fmt::Error);
        }
        let pos = self.data.len();
        // The first pending fault whose offset lies within this write (or before it).
        let hit = self
            .faults
            .iter_mut()
            .filter(|f| !f.fired && f.offset < pos + s.len().max(1))
            .min_by_key(|f| f.offset);
        if let Some(f) = hit {
            f.fired = true;
            let mut keep = f.offset.saturating_sub(pos).min(s.len());
            while !s.is_char_boundary(keep) {
                keep -= 1;
            }
            self.data.push_str(&s[..keep]);
            self.fired.push((pos + keep, f.kind));
            if f.kind == FmtFault::Sticky {
                self.sticky = true;
            }
            return Err(fmt::Error);
        }
        self.data.push_str(s);
        Ok(())
    }
}
