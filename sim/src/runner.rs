//! Batch driver: workers, statistics, digests, minimiser, replay and evidence writers.

use std::collections::HashSet;
use std::hash::{BuildHasherDefault, Hasher};
use std::path::{Path, PathBuf};
use std::sync::atomic::{AtomicBool, AtomicU64, Ordering};
use std::sync::Mutex;
use std::time::Instant;

use serde_json::{json, Value};

use crate::core::{Log, Sim, Stats, Violation};
use crate::rng::{run_seed, splitmix64};

/// Identity hasher for sets of already well-mixed 64-bit digests (statistics only).
#[derive(Default)]
pub struct IdHasher(u64);

impl Hasher for IdHasher {
    fn finish(&self) -> u64 {
        self.0
    }

    fn write(&mut self, bytes: &[u8]) {
        for b in bytes {
            self.0 = (self.0 << 8) | u64::from(*b);
        }
    }

    fn write_u64(&mut self, v: u64) {
        self.0 = v;
    }
}

pub type DigestSet = HashSet<u64, BuildHasherDefault<IdHasher>>;

pub struct BatchConfig {
    pub batch_seed: u64,
    pub runs: u64,
    pub workers: usize,
    pub keep_run_digests: bool,
    /// Stop handing out work once this many violating runs were seen.
    pub max_violations: usize,
}

pub struct Found<S> {
    pub run_index: u64,
    pub run_seed: u64,
    pub scenario: S,
    pub violation: Violation,
}

pub struct BatchResult<S> {
    pub digest: u64,
    pub run_digests: Option<Vec<u64>>,
    pub stats: Stats,
    pub events: u64,
    pub runs_done: u64,
    pub nontrivial_runs: u64,
    pub distinct_nontrivial: u64,
    pub violations: Vec<Found<S>>,
    pub wall_s: f64,
}

pub fn run_batch<S: Sim>(sim: &S, cfg: &BatchConfig) -> BatchResult<S::Scenario> {
    let start = Instant::now();
    let next = AtomicU64::new(0);
    let stop = AtomicBool::new(false);
    let violations: Mutex<Vec<Found<S::Scenario>>> = Mutex::new(Vec::new());
    let run_digests: Option<Vec<AtomicU64>> =
        cfg.keep_run_digests.then(|| (0..cfg.runs).map(|_| AtomicU64::new(0)).collect());
    const CHUNK: u64 = 256;

    struct WorkerOut {
        stats: Stats,
        digest_sum: u64,
        events: u64,
        runs: u64,
        nontrivial: u64,
        distinct: DigestSet,
    }

    let outs: Vec<WorkerOut> = std::thread::scope(|scope| {
        let handles: Vec<_> = (0..cfg.workers.max(1))
            .map(|_| {
                scope.spawn(|| {
                    let mut out = WorkerOut {
                        stats: Stats::default(),
                        digest_sum: 0,
                        events: 0,
                        runs: 0,
                        nontrivial: 0,
                        distinct: DigestSet::default(),
                    };
                    loop {
                        if stop.load(Ordering::Relaxed) {
                            break;
                        }
                        let lo = next.fetch_add(CHUNK, Ordering::Relaxed);
                        if lo >= cfg.runs {
                            break;
                        }
                        let hi = (lo + CHUNK).min(cfg.runs);
                        for i in lo..hi {
                            let seed = run_seed(cfg.batch_seed, i);
                            let scenario = sim.generate(seed);
                            let mut log = Log::new(false);
                            let result = execute_guarded(sim, &scenario, &mut log, &mut out.stats);
                            let mut digest = log.digest();
                            out.events += log.events;
                            out.runs += 1;
                            match result {
                                Ok(nontrivial) => {
                                    if nontrivial {
                                        out.nontrivial += 1;
                                        out.distinct.insert(digest);
                                    }
                                },
                                Err(violation) => {
                                    digest = splitmix64(digest ^ 0xdead_beef);
                                    let mut v = violations.lock().unwrap();
                                    v.push(Found {
                                        run_index: i,
                                        run_seed: seed,
                                        scenario,
                                        violation,
                                    });
                                    if v.len() >= cfg.max_violations {
                                        stop.store(true, Ordering::Relaxed);
                                    }
                                },
                            }
                            out.digest_sum =
                                out.digest_sum.wrapping_add(splitmix64(digest ^ seed.rotate_left(17)));
                            if let Some(d) = &run_digests {
                                d[i as usize].store(digest, Ordering::Relaxed);
                            }
                        }
                    }
                    out
                })
            })
            .collect();
        handles.into_iter().map(|h| h.join().expect("worker thread panicked")).collect()
    });

    let mut stats = Stats::default();
    let mut digest = 0u64;
    let mut events = 0;
    let mut runs_done = 0;
    let mut nontrivial_runs = 0;
    let mut distinct = DigestSet::default();
    for out in outs {
        stats.merge(out.stats);
        digest = digest.wrapping_add(out.digest_sum);
        events += out.events;
        runs_done += out.runs;
        nontrivial_runs += out.nontrivial;
        distinct.extend(out.distinct);
    }
    let mut violations = violations.into_inner().unwrap();
    violations.sort_by_key(|f| f.run_index);
    BatchResult {
        digest,
        run_digests: run_digests.map(|d| d.into_iter().map(|a| a.into_inner()).collect()),
        stats,
        events,
        runs_done,
        nontrivial_runs,
        distinct_nontrivial: distinct.len() as u64,
        violations,
        wall_s: start.elapsed().as_secs_f64(),
    }
}

/// `sim.execute`, with a last line of defence: a panic that escapes the executor's own guards (a
/// library call that nobody expected to panic) becomes a violation with a code of its own instead
/// of taking the worker thread down.
fn execute_guarded<S: Sim>(sim: &S, scenario: &S::Scenario, log: &mut Log, stats: &mut Stats) -> Result<bool, Violation> {
    match crate::core::guarded(|| sim.execute(scenario, log, stats)) {
        Ok(result) => result,
        Err(panic) => Err(Violation::new(
            &format!("{}.panic_outside_guarded_call", sim.id()),
            format!("a call made by the simulator panicked outside its guarded sections: {panic}"),
        )),
    }
}

/// Execute once, recording the event log as text.
pub fn execute_recorded<S: Sim>(
    sim: &S,
    scenario: &S::Scenario,
) -> (Vec<String>, u64, Result<bool, Violation>) {
    let mut log = Log::new(true);
    let mut scratch = Stats::default();
    let result = execute_guarded(sim, scenario, &mut log, &mut scratch);
    (log.lines().to_vec(), log.digest(), result)
}

fn fails_with<S: Sim>(sim: &S, scenario: &S::Scenario, code: &str) -> bool {
    let mut log = Log::new(false);
    let mut scratch = Stats::default();
    matches!(execute_guarded(sim, scenario, &mut log, &mut scratch), Err(v) if v.code == code)
}

/// Greedy minimisation: keep a candidate only if the same violation code is raised again.
pub fn minimise<S: Sim>(
    sim: &S,
    scenario: &S::Scenario,
    code: &str,
    budget: usize,
) -> (S::Scenario, usize) {
    let mut current = scenario.clone();
    let mut executions = 0;
    'outer: loop {
        for candidate in sim.shrink_candidates(&current) {
            if executions >= budget {
                break 'outer;
            }
            executions += 1;
            if fails_with(sim, &candidate, code) {
                current = candidate;
                continue 'outer;
            }
        }
        break;
    }
    (current, executions)
}

#[derive(Clone, Debug)]
pub struct KnownFinding {
    pub property: String,
    pub code: String,
    pub needle: String,
    pub line: String,
}

/// `finding: property=<id> code=<violation code> match=<text that the violation message contains>`
pub fn load_known_findings(path: &Path) -> Result<Vec<KnownFinding>, String> {
    let text = match std::fs::read_to_string(path) {
        Ok(t) => t,
        Err(e) if e.kind() == std::io::ErrorKind::NotFound => return Ok(Vec::new()),
        Err(e) => return Err(format!("cannot read {}: {e}", path.display())),
    };
    let mut out = Vec::new();
    for line in text.lines() {
        let line = line.trim();
        let Some(rest) = line.strip_prefix("finding:") else { continue };
        let rest = rest.trim();
        let property = field(rest, "property=").ok_or_else(|| format!("bad finding line: {line}"))?;
        let code = field(rest, "code=").ok_or_else(|| format!("bad finding line: {line}"))?;
        let needle = rest
            .split_once("match=")
            .map(|(_, m)| m.to_owned())
            .ok_or_else(|| format!("bad finding line: {line}"))?;
        out.push(KnownFinding { property, code, needle, line: line.to_owned() });
    }
    Ok(out)
}

fn field(s: &str, name: &str) -> Option<String> {
    let at = s.find(name)? + name.len();
    Some(s[at..].split_whitespace().next()?.to_owned())
}

pub struct CheckOptions {
    pub tier: String,
    pub batch_seed: u64,
    pub runs: u64,
    pub workers: usize,
    pub selfcheck_runs: u64,
    pub evidence_path: PathBuf,
    pub replay_dir: PathBuf,
    pub known_findings: PathBuf,
    pub build_tag: String,
    /// Evidence of an earlier build of the same check invocation to carry along under `builds`.
    pub carry: Vec<PathBuf>,
    /// JSON objects written by other lanes of the same check invocation (the Miri lane of C12).
    pub extra: Vec<PathBuf>,
}

fn hex64(v: u64) -> String {
    format!("{v:016x}")
}

fn sample_json<S: Sim>(sim: &S, batch_seed: u64, i: u64) -> Value {
    let seed = run_seed(batch_seed, i);
    let scenario = sim.generate(seed);
    let (lines, digest, result) = execute_recorded(sim, &scenario);
    let shown: Vec<&String> = lines.iter().take(60).collect();
    json!({
        "run_index": i,
        "run_seed": seed,
        "scenario": scenario,
        "event_log_digest": hex64(digest),
        "event_log_lines": lines.len(),
        "event_log_head": shown,
        "outcome": match &result {
            Ok(true) => "held (non-trivial run)".to_owned(),
            Ok(false) => "held (trivial run)".to_owned(),
            Err(v) => format!("VIOLATION {}", v.code),
        },
    })
}

/// Determinism self-check: the same batch with 16 and with 1 worker in this process, and in two
/// further fresh processes; all digests (batch and per run) must agree.
pub fn selfcheck<S: Sim>(sim: &S, batch_seed: u64, runs: u64, workers: usize) -> Result<Value, String> {
    let many = run_batch(sim, &BatchConfig {
        batch_seed,
        runs,
        workers,
        keep_run_digests: true,
        max_violations: usize::MAX,
    });
    let one = run_batch(sim, &BatchConfig {
        batch_seed,
        runs,
        workers: 1,
        keep_run_digests: true,
        max_violations: usize::MAX,
    });
    if many.digest != one.digest {
        let a = many.run_digests.as_ref().unwrap();
        let b = one.run_digests.as_ref().unwrap();
        let first = a.iter().zip(b).position(|(x, y)| x != y);
        return Err(format!(
            "batch digest differs between {workers} workers ({}) and 1 worker ({}); first differing run: {first:?}",
            hex64(many.digest),
            hex64(one.digest)
        ));
    }
    let exe = std::env::current_exe().map_err(|e| e.to_string())?;
    let mut child_digests = Vec::new();
    for w in [workers.to_string(), "3".to_owned()] {
        let out = std::process::Command::new(&exe)
            .args(["digest", sim.id(), "--seed", &batch_seed.to_string(), "--runs", &runs.to_string(), "--workers", &w])
            .output()
            .map_err(|e| format!("cannot spawn digest child: {e}"))?;
        if !out.status.success() {
            return Err(format!("digest child failed: {}", String::from_utf8_lossy(&out.stderr)));
        }
        let text = String::from_utf8_lossy(&out.stdout).trim().to_owned();
        child_digests.push(text);
    }
    for (n, c) in child_digests.iter().enumerate() {
        if *c != hex64(many.digest) {
            return Err(format!(
                "batch digest of fresh process #{n} ({c}) differs from in-process digest {}",
                hex64(many.digest)
            ));
        }
    }
    Ok(json!({
        "runs": runs,
        "batch_digest": hex64(many.digest),
        "executions_compared": ["in-process, 16 workers", "in-process, 1 worker", "fresh process, 16 workers", "fresh process, 3 workers"],
        "identical": true,
    }))
}

/// The whole check for one build. Returns the process exit code.
pub fn run_check<S: Sim>(sim: &S, opt: &CheckOptions) -> i32 {
    let id = sim.id();
    let start = Instant::now();
    let known = match load_known_findings(&opt.known_findings) {
        Ok(k) => k,
        Err(e) => {
            eprintln!("harness error: {e}");
            return 2;
        },
    };
    println!(
        "[{id}] build={} tier={} VERIF_SEED={} runs={} workers={}",
        opt.build_tag, opt.tier, opt.batch_seed, opt.runs, opt.workers
    );
    let batch = run_batch(sim, &BatchConfig {
        batch_seed: opt.batch_seed,
        runs: opt.runs,
        workers: opt.workers,
        keep_run_digests: false,
        max_violations: 64,
    });
    println!(
        "[{id}] {} runs, {} simulated events, {:.1}s, {} violating runs, batch digest {}",
        batch.runs_done,
        batch.events,
        batch.wall_s,
        batch.violations.len(),
        hex64(batch.digest)
    );

    // Triage violations: known findings are reported as such, anything else is minimised.
    let mut exit = 0;
    let mut known_hit: Vec<String> = Vec::new();
    let mut reported_codes: Vec<String> = Vec::new();
    let mut violation_count = 0;
    for found in &batch.violations {
        let v = &found.violation;
        if let Some(k) = known
            .iter()
            .find(|k| k.property == id && k.code == v.code && v.message.contains(&k.needle))
        {
            if !known_hit.contains(&k.line) {
                println!("KNOWN-FINDING: property={id} {} ({})", k.needle, k.code);
                known_hit.push(k.line.clone());
            }
            continue;
        }
        violation_count += 1;
        if reported_codes.contains(&v.code) || reported_codes.len() >= 4 {
            continue;
        }
        reported_codes.push(v.code.clone());
        let (min, execs) = minimise(sim, &found.scenario, &v.code, 2000);
        let (lines, _digest, result) = execute_recorded(sim, &min);
        let min_violation = match result {
            Err(mv) => mv,
            Ok(_) => v.clone(),
        };
        // A minimised scenario may turn out to be a known finding.
        if let Some(k) = known.iter().find(|k| {
            k.property == id && k.code == min_violation.code && min_violation.message.contains(&k.needle)
        }) {
            if !known_hit.contains(&k.line) {
                println!("KNOWN-FINDING: property={id} {} ({})", k.needle, k.code);
                known_hit.push(k.line.clone());
            }
            violation_count -= 1;
            reported_codes.pop();
            continue;
        }
        let path = opt.replay_dir.join(format!(
            "{id}-seed{}-run{}-{}.json",
            opt.batch_seed,
            found.run_index,
            opt.build_tag
        ));
        let replay = json!({
            "property": id,
            "build": opt.build_tag,
            "violation": min_violation,
            "original_violation": v,
            "batch_seed": opt.batch_seed,
            "run_index": found.run_index,
            "run_seed": found.run_seed,
            "minimiser_executions": execs,
            "scenario": min,
            "original_scenario": found.scenario,
            "event_log": lines,
        });
        if let Err(e) = std::fs::create_dir_all(&opt.replay_dir)
            .and_then(|_| std::fs::write(&path, serde_json::to_vec_pretty(&replay).unwrap()))
        {
            eprintln!("harness error: cannot write replay file {}: {e}", path.display());
            return 2;
        }
        println!("[{id}] {}: {}", min_violation.code, min_violation.message);
        println!("VIOLATION property={id} replay={}", path.display());
        exit = 1;
    }

    // Determinism self-check (thorough tier, and only meaningful on a clean batch).
    let mut determinism = json!({"checked": false});
    if opt.selfcheck_runs > 0 && exit == 0 {
        match selfcheck(sim, opt.batch_seed, opt.selfcheck_runs, opt.workers) {
            Ok(v) => {
                println!("[{id}] determinism self-check ok over {} runs", opt.selfcheck_runs);
                determinism = v;
            },
            Err(e) => {
                eprintln!("harness error: determinism self-check failed: {e}");
                return 2;
            },
        }
    }

    // Evidence.
    let (extra, unmet) = sim.evidence_extra(&batch.stats, opt.tier == "quick");
    let mut samples: Vec<Value> = (0..3.min(opt.runs)).map(|i| sample_json(sim, opt.batch_seed, i)).collect();
    // Add the first non-trivial run if none of the first three is one.
    if !samples.iter().any(|s| s["outcome"] == "held (non-trivial run)") {
        for i in 3..opt.runs.min(2000) {
            let s = sample_json(sim, opt.batch_seed, i);
            if s["outcome"] == "held (non-trivial run)" {
                samples.push(s);
                break;
            }
        }
    }
    let counters: serde_json::Map<String, Value> =
        batch.stats.counters.iter().map(|(k, v)| (k.to_string(), json!(v))).collect();
    let wall = start.elapsed().as_secs_f64();
    let this_build = json!({
        "build": opt.build_tag,
        "evaluations": batch.runs_done,
        "nontrivial_runs": batch.nontrivial_runs,
        "distinct_nontrivial": batch.distinct_nontrivial,
        "simulated_events": batch.events,
        "batch_digest": hex64(batch.digest),
        "wall_s": batch.wall_s,
        "violations": violation_count,
    });
    let mut builds = Vec::new();
    let mut carried_violations = 0u64;
    for c in &opt.carry {
        match std::fs::read(c).ok().and_then(|b| serde_json::from_slice::<Value>(&b).ok()) {
            Some(v) => {
                carried_violations += v["violations"].as_u64().unwrap_or(0);
                if let Some(b) = v["coverage"]["builds"].as_array() {
                    builds.extend(b.iter().cloned());
                }
            },
            None => {
                eprintln!("harness error: cannot read carried evidence {}", c.display());
                return 2;
            },
        }
    }
    builds.push(this_build);
    let mut extra_lanes = Vec::new();
    for e in &opt.extra {
        match std::fs::read(e).ok().and_then(|b| serde_json::from_slice::<Value>(&b).ok()) {
            Some(v) => {
                carried_violations += v["violations"].as_u64().unwrap_or(0);
                extra_lanes.push(v);
            },
            None => {
                eprintln!("harness error: cannot read extra lane evidence {}", e.display());
                return 2;
            },
        }
    }
    let evidence = json!({
        "property_id": id,
        "tier": opt.tier,
        "seed": opt.batch_seed,
        "level": "exploration",
        "coverage": {
            "evaluations": batch.runs_done,
            "distinct_nontrivial": batch.distinct_nontrivial,
            "rule": sim.rule(),
            "samples": samples,
            "nontrivial_runs": batch.nontrivial_runs,
            "seeds": format!("run i of the batch uses splitmix64(VERIF_SEED ^ i*phi), i in 0..{}", opt.runs),
            "simulated_events": batch.events,
            "simulated_time_note": "the system has no clock; simulated time is the count of discrete events (operations, callbacks, I/O calls) in the event logs",
            "runs_per_hour": if batch.wall_s > 0.0 { (batch.runs_done as f64 / batch.wall_s * 3600.0) as u64 } else { 0 },
            "seeds_per_hour": if batch.wall_s > 0.0 { (batch.runs_done as f64 / batch.wall_s * 3600.0) as u64 } else { 0 },
            "counters": counters,
            "distinct_reach_tuples": batch.stats.reach.len(),
            "property_specific": extra,
            "determinism": determinism,
            "batch_digest": hex64(batch.digest),
            "builds": builds,
            "extra_lanes": extra_lanes,
            "known_findings_hit": known_hit,
            "reach_requirements_unmet": unmet,
            "components": sim.components(),
            "numbers_are_from_build": opt.build_tag,
        },
        "assumptions": sim.assumptions(),
        "wall_s": wall,
        "violations": violation_count as u64 + carried_violations,
    });
    if let Some(dir) = opt.evidence_path.parent() {
        let _ = std::fs::create_dir_all(dir);
    }
    if let Err(e) = std::fs::write(&opt.evidence_path, serde_json::to_vec_pretty(&evidence).unwrap()) {
        eprintln!("harness error: cannot write evidence {}: {e}", opt.evidence_path.display());
        return 2;
    }
    // A probe stuck at zero is feedback about the workload, not a verdict about the code: report it,
    // record it in the evidence file, and leave the exit code alone.
    for u in &unmet {
        println!("[{id}] WARNING reach requirement not met: {u}");
    }
    if exit == 0 {
        println!("[{id}] held on everything explored ({} runs, build {})", batch.runs_done, opt.build_tag);
    }
    exit
}

/// Re-execute the scenario of a replay file. Exit 1 = reproduced, 3 = did not reproduce.
pub fn replay<S: Sim>(sim: &S, path: &Path) -> i32 {
    let id = sim.id();
    let value: Value = match std::fs::read(path).map_err(|e| e.to_string()).and_then(|b| {
        serde_json::from_slice(&b).map_err(|e| e.to_string())
    }) {
        Ok(v) => v,
        Err(e) => {
            eprintln!("harness error: cannot read replay file {}: {e}", path.display());
            return 2;
        },
    };
    let scenario: S::Scenario = match serde_json::from_value(value["scenario"].clone()) {
        Ok(s) => s,
        Err(e) => {
            eprintln!("harness error: replay file has no usable scenario: {e}");
            return 2;
        },
    };
    let expected_code = value["violation"]["code"].as_str().unwrap_or("").to_owned();
    let (lines, digest, result) = execute_recorded(sim, &scenario);
    for l in &lines {
        println!("  | {l}");
    }
    println!("[{id}] event log digest {}", hex64(digest));
    if let Some(old) = value["event_log"].as_array() {
        let same = old.len() == lines.len()
            && old.iter().zip(&lines).all(|(a, b)| a.as_str() == Some(b.as_str()));
        println!("[{id}] event log identical to the recorded one: {same}");
    }
    match result {
        Err(v) if v.code == expected_code => {
            println!("[{id}] {}: {}", v.code, v.message);
            println!("VIOLATION property={id} replay={}", path.display());
            1
        },
        Err(v) => {
            println!("[{id}] a different violation was raised: {}: {}", v.code, v.message);
            println!("VIOLATION property={id} replay={}", path.display());
            1
        },
        Ok(_) => {
            println!("[{id}] replay did NOT reproduce {expected_code} (property held on this tree)");
            3
        },
    }
}
