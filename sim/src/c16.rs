//! C16 — serde form is exactly the string form, for every way the byte streams can behave.
//!
//! producer: [PURL values] --Serialize--> SimWriter ==bytes==> SimReader --Deserialize--> consumer

use std::borrow::Cow;
use std::fmt::{self, Debug, Display, Write as _};
use std::io::{BufReader, BufWriter, Write as _};
use std::str::FromStr;

use purl::{GenericPurl, GenericPurlBuilder, PurlShape};
use serde::de::value::{
    BoolDeserializer, BorrowedBytesDeserializer, BorrowedStrDeserializer, BytesDeserializer, CowStrDeserializer,
    Error as ValueError, F64Deserializer,
    I64Deserializer, MapDeserializer, SeqDeserializer, StrDeserializer, StringDeserializer, U64Deserializer,
    UnitDeserializer,
};
use serde::ser::Impossible;
use serde::{Deserialize, Serialize};
use serde_json::json;

use crate::core::{clip, guarded, string_shrinks, Log, Sim, Stats, Violation};
use crate::gen;
use crate::io_stub::{FmtFault, RFault, SimFmtSink, SimReader, SimWriter, WFault};
use crate::rng::{Fnv, Rng};
use crate::{ev, violation};

#[derive(Clone, Copy, Debug, PartialEq, Eq, Serialize, Deserialize)]
pub enum Ty {
    /// `GenericPurl<String>`
    Generic,
    /// `Purl` = `GenericPurl<PackageType>` (falls back to `Generic` in a build without package-type)
    Typed,
}

#[derive(Clone, Copy, Debug, PartialEq, Eq, Serialize, Deserialize)]
pub enum SerKind {
    ToWriter,
    ToWriterPretty,
    ToBufWriter { cap: usize },
    ToVec,
    ToString,
    ToValue,
    /// An own string-only `Serializer` whose `collect_str` streams `Display` into a `SimFmtSink`.
    OwnFmt,
    /// serde's own `Serializer for &mut fmt::Formatter`, reached through a wrapper that is formatted
    /// with width / precision / fill flags (`format!("{:*>w$.p$}", ...)`): what comes out must be the
    /// canonical string, either untouched (the PURL formats itself and ignores the flags) or padded /
    /// truncated as a whole the way `str`'s own `Display` does it (the implementation handed serde a
    /// finished string) - never with the flags applied to one piece of it.
    ViaFormatter { width: usize, precision: usize },
}

#[derive(Clone, Copy, Debug, PartialEq, Eq, Serialize, Deserialize)]
pub enum DeKind {
    /// `Deserializer::from_reader(SimReader).into_iter()` over all documents; `buf` > 0 wraps a `BufReader`.
    ReaderStream { buf: usize },
    /// `serde_json::from_reader` on the first document only.
    ReaderSingle { buf: usize },
    Slice,
    Str,
    Value,
    /// serde's own `de::value` string deserializers (Str, String, BorrowedStr, CowStr by index).
    SerdeStr(u8),
    /// An own deserializer for a format that is **not self-describing** (bincode / postcard style): it
    /// honours the hints `deserialize_str` / `deserialize_string` (delivering the string as transient,
    /// borrowed or owned, by index) and refuses `deserialize_any` and every other hint.
    HintOnly(u8),
    /// `Deserialize::deserialize_in_place` over an existing PURL that has qualifiers, a checksum and a
    /// subpath (directly, or as the one element of an existing `Vec`, whose in-place visitor reuses it).
    InPlace { vec: bool },
}

#[derive(Clone, Debug, PartialEq, Eq, Serialize, Deserialize)]
pub struct BuiltSpec {
    pub ty: String,
    pub namespace: String,
    pub name: String,
    pub version: String,
    pub qualifiers: Vec<(String, String)>,
    pub subpath: String,
    /// After all qualifiers are in: `without_qualifier` of the i-th one (modulo).
    #[serde(default)]
    pub drop_qualifier: Option<usize>,
    /// Written straight into the builder's public `parts.qualifiers` (not through `with_qualifier`):
    /// key and value; an empty value must leave no trace in the built PURL.
    #[serde(default)]
    pub direct_qualifier: Option<(String, String)>,
    /// Last step before `build()`: the value of the i-th qualifier then present (modulo) is
    /// overwritten IN PLACE through one of the `&mut SmallString` the collection hands out (path
    /// 0-7: `get_mut`, `IndexMut`, `iter_mut`, `OccupiedEntry::get_mut`, `Entry::and_modify`, the
    /// reference returned by `insert`, `OccupiedEntry::into_mut`, `&mut Qualifiers` as an iterator).
    /// A value that went through such an edit must round-trip like any other (r12c16-1: a length
    /// counter that takes part in `==` and goes stale on exactly these paths).
    #[serde(default)]
    pub edit_in_place: Option<(usize, usize, String)>,
}

#[derive(Clone, Debug, PartialEq, Eq, Serialize, Deserialize)]
pub enum DocSpec {
    /// A PURL value obtained from the parser (if the input is refused: a string document holding the input).
    Parsed { input: String },
    /// A PURL value obtained from the builder (if refused: skipped).
    Built(BuiltSpec),
    /// Consumer-only: a JSON string document holding `s`, spelled with the escapes `json_seed` selects.
    RawString { s: String, json_seed: u64 },
    /// Consumer-only: a JSON value that is not a string.
    RawJson { text: String },
}

#[derive(Clone, Copy, Debug, PartialEq, Eq, PartialOrd, Ord, Serialize, Deserialize)]
pub enum LC {
    OpenQuote,
    Scheme,
    Type,
    SlashAfterType,
    Namespace,
    Name,
    At,
    Version,
    Question,
    QualKey,
    Equals,
    QualValue,
    Amp,
    Hash,
    Subpath,
    InsideEscape,
    CloseQuote,
    AfterEnd,
}

pub const ALL_LC: &[LC] = &[
    LC::OpenQuote,
    LC::Scheme,
    LC::Type,
    LC::SlashAfterType,
    LC::Namespace,
    LC::Name,
    LC::At,
    LC::Version,
    LC::Question,
    LC::QualKey,
    LC::Equals,
    LC::QualValue,
    LC::Amp,
    LC::Hash,
    LC::Subpath,
    LC::InsideEscape,
    LC::CloseQuote,
    LC::AfterEnd,
];

#[derive(Clone, Copy, Debug, PartialEq, Eq, Serialize, Deserialize)]
pub enum Pos {
    /// The `k`-th byte (modulo) of layout class `class` of document `doc`'s canonical string.
    Layout { doc: usize, class: LC, k: usize },
    /// Strictly inside document `doc`.
    InDoc { doc: usize, k: usize },
    /// Exactly at the end of document `doc`.
    Boundary { doc: usize },
    /// Absolute stream offset.
    Byte(usize),
}

/// How every document embeds its PURL (or the raw value standing in for it).
#[derive(Clone, Copy, Debug, Default, PartialEq, Eq, Serialize, Deserialize)]
pub enum Wrap {
    /// The document is the PURL itself.
    #[default]
    Bare,
    /// `{"id":7,"purl":<P>,"tags":["a","b"]}` through a derived struct.
    Struct,
    /// `[<P>]` through `Vec`.
    Seq,
    /// `{<P>:1}` through `BTreeMap<GenericPurl<T>, u32>`: the PURL is a JSON object key.
    MapKey,
    /// `<P>` through `Option`.
    Opt,
    /// `[<P>,"x"]` through a tuple.
    Pair,
    /// `<P>` through `#[serde(untagged)] enum { Purl(P), Number(u32) }`: deserialisation goes through
    /// serde's buffered `Content` and its `ContentRefDeserializer`.
    Untagged,
    /// `{"t":"A","purl":<P>}` through `#[serde(tag = "t")] enum { A { purl: P } }`: likewise buffered.
    Tagged,
}

impl Wrap {
    const fn code(self) -> u8 {
        match self {
            Wrap::Bare => 0,
            Wrap::Struct => 1,
            Wrap::Seq => 2,
            Wrap::MapKey => 3,
            Wrap::Opt => 4,
            Wrap::Pair => 5,
            Wrap::Untagged => 6,
            Wrap::Tagged => 7,
        }
    }
}

#[derive(Serialize, Deserialize)]
struct Rec<P> {
    id: u32,
    purl: P,
    tags: Vec<String>,
}

#[derive(Serialize, Deserialize)]
#[serde(untagged)]
enum Untagged<P> {
    Purl(P),
    #[allow(dead_code)]
    Number(u32),
}

#[derive(Serialize)]
#[serde(untagged)]
enum UntaggedRef<'a, P> {
    Purl(&'a P),
}

#[derive(Serialize, Deserialize)]
#[serde(tag = "t")]
enum Tagged<P> {
    A { purl: P },
}

#[derive(Serialize)]
#[serde(tag = "t")]
enum TaggedRef<'a, P> {
    A { purl: &'a P },
}

#[derive(Serialize)]
struct RecRef<'a, P> {
    id: u32,
    purl: &'a P,
    tags: [&'a str; 2],
}

/// Serialises `P` embedded the way wrap code `K` says.
struct WS<'a, P, const K: u8>(&'a P);

impl<P: Serialize, const K: u8> Serialize for WS<'_, P, K> {
    fn serialize<S: serde::Serializer>(&self, s: S) -> Result<S::Ok, S::Error> {
        match K {
            1 => RecRef { id: 7, purl: self.0, tags: ["a", "b"] }.serialize(s),
            2 => s.collect_seq(std::iter::once(self.0)),
            3 => s.collect_map(std::iter::once((self.0, 1u32))),
            4 => Some(self.0).serialize(s),
            5 => (self.0, "x").serialize(s),
            6 => UntaggedRef::Purl(self.0).serialize(s),
            7 => TaggedRef::A { purl: self.0 }.serialize(s),
            _ => self.0.serialize(s),
        }
    }
}

/// Deserialises a `P` embedded the way wrap code `K` says, and extracts it.
struct W<P, const K: u8>(P);

impl<'de, P: Deserialize<'de> + Ord, const K: u8> Deserialize<'de> for W<P, K> {
    fn deserialize<D: serde::Deserializer<'de>>(d: D) -> Result<Self, D::Error> {
        use serde::de::Error;
        match K {
            1 => Rec::<P>::deserialize(d).map(|r| W(r.purl)),
            2 => {
                let mut v = Vec::<P>::deserialize(d)?;
                match (v.pop(), v.is_empty()) {
                    (Some(p), true) => Ok(W(p)),
                    _ => Err(D::Error::custom("harness: expected exactly one element")),
                }
            },
            3 => {
                let m = std::collections::BTreeMap::<P, u32>::deserialize(d)?;
                let mut keys = m.into_keys();
                match (keys.next(), keys.next()) {
                    (Some(p), None) => Ok(W(p)),
                    _ => Err(D::Error::custom("harness: expected exactly one key")),
                }
            },
            4 => Option::<P>::deserialize(d)?.map(W).ok_or_else(|| D::Error::custom("harness: null")),
            5 => <(P, String)>::deserialize(d).map(|(p, _)| W(p)),
            6 => match Untagged::<P>::deserialize(d)? {
                Untagged::Purl(p) => Ok(W(p)),
                Untagged::Number(_) => Err(D::Error::custom("harness: the other variant matched")),
            },
            7 => Tagged::<P>::deserialize(d).map(|Tagged::A { purl }| W(purl)),
            _ => P::deserialize(d).map(W),
        }
    }
}

const PLACEHOLDER: &str = "@@PURL@@";

/// The bytes before and after the PURL literal in a document with wrap code `K`, taken from the
/// real serializer applied to the same wrapper around a plain `String`.
fn template<const K: u8>(pretty: bool) -> (Vec<u8>, Vec<u8>) {
    let inner = PLACEHOLDER.to_owned();
    let bytes = if pretty { serde_json::to_vec_pretty(&WS::<String, K>(&inner)) } else { serde_json::to_vec(&WS::<String, K>(&inner)) }
        .expect("serialising the template cannot fail");
    let text = String::from_utf8(bytes).expect("JSON is UTF-8");
    let needle = format!("\"{PLACEHOLDER}\"");
    let at = text.find(&needle).expect("the template contains the placeholder");
    (text[..at].as_bytes().to_vec(), text[at + needle.len()..].as_bytes().to_vec())
}

#[derive(Clone, Debug, PartialEq, Eq, Serialize, Deserialize)]
pub struct Scenario {
    pub ty: Ty,
    #[serde(default)]
    pub wrap: Wrap,
    pub docs: Vec<DocSpec>,
    /// Separator between documents in the stream (whitespace or nothing).
    pub sep: String,
    pub ser: SerKind,
    pub de: DeKind,
    pub w_chunk: usize,
    pub w_faults: Vec<(Pos, WFault)>,
    pub r_chunk: usize,
    pub r_faults: Vec<(Pos, RFault)>,
    pub f_faults: Vec<(Pos, FmtFault)>,
}

// ---------------------------------------------------------------------------------------------
// JSON spelling (harness side).

/// The minimal JSON string literal of `s`, and for each byte offset of `s` the offset in the literal.
fn json_minimal(s: &str) -> (String, Vec<usize>) {
    let mut out = String::with_capacity(s.len() + 2);
    let mut map = Vec::with_capacity(s.len() + 1);
    out.push('"');
    for (i, c) in s.char_indices() {
        for _ in map.len()..=i {
            map.push(out.len());
        }
        match c {
            '"' => out.push_str("\\\""),
            '\\' => out.push_str("\\\\"),
            '\n' => out.push_str("\\n"),
            '\r' => out.push_str("\\r"),
            '\t' => out.push_str("\\t"),
            '\u{8}' => out.push_str("\\b"),
            '\u{c}' => out.push_str("\\f"),
            c if (c as u32) < 0x20 => {
                let _ = write!(out, "\\u{:04x}", c as u32);
            },
            c => out.push(c),
        }
        for _ in map.len()..i + c.len_utf8() {
            map.push(out.len());
        }
    }
    for _ in map.len()..=s.len() {
        map.push(out.len());
    }
    out.push('"');
    (out, map)
}

/// Another JSON spelling of the same string: gratuitous \uXXXX escapes, surrogate pairs, `\/`.
fn json_spell(s: &str, seed: u64) -> String {
    if seed == 0 {
        return json_minimal(s).0;
    }
    let mut rng = Rng::new(seed);
    let mode = rng.below(3);
    let mut out = String::from("\"");
    for c in s.chars() {
        let must = c == '"' || c == '\\' || (c as u32) < 0x20;
        let extra = match mode {
            0 => false,
            1 => rng.chance(1, 4),
            _ => !c.is_ascii_alphanumeric() && rng.chance(1, 2),
        };
        if must || extra {
            if c == '/' && rng.chance(1, 2) {
                out.push_str("\\/");
                continue;
            }
            if must && rng.chance(1, 2) {
                match c {
                    '"' => out.push_str("\\\""),
                    '\\' => out.push_str("\\\\"),
                    '\n' => out.push_str("\\n"),
                    '\t' => out.push_str("\\t"),
                    _ => {
                        let _ = write!(out, "\\u{:04X}", c as u32);
                    },
                }
                continue;
            }
            let mut units = [0u16; 2];
            let upper = rng.chance(1, 2);
            for u in c.encode_utf16(&mut units) {
                if upper {
                    let _ = write!(out, "\\u{:04X}", u);
                } else {
                    let _ = write!(out, "\\u{:04x}", u);
                }
            }
        } else {
            out.push(c);
        }
    }
    out.push('"');
    out
}

/// For each byte of a canonical PURL string, its layout class.
fn layout(canon: &str) -> Vec<LC> {
    let b = canon.as_bytes();
    let mut classes = vec![LC::Name; b.len()];
    let mut i = 0;
    while i < b.len() && i < 4 {
        classes[i] = LC::Scheme;
        i += 1;
    }
    while i < b.len() && b[i] != b'/' {
        classes[i] = LC::Type;
        i += 1;
    }
    if i < b.len() {
        classes[i] = LC::SlashAfterType;
        i += 1;
    }
    let path_start = i;
    while i < b.len() && !matches!(b[i], b'@' | b'?' | b'#') {
        i += 1;
    }
    let path_end = i;
    let name_start = canon[path_start..path_end].rfind('/').map(|p| path_start + p + 1).unwrap_or(path_start);
    for c in &mut classes[path_start..name_start] {
        *c = LC::Namespace;
    }
    for c in &mut classes[name_start..path_end] {
        *c = LC::Name;
    }
    if i < b.len() && b[i] == b'@' {
        classes[i] = LC::At;
        i += 1;
        while i < b.len() && !matches!(b[i], b'?' | b'#') {
            classes[i] = LC::Version;
            i += 1;
        }
    }
    if i < b.len() && b[i] == b'?' {
        classes[i] = LC::Question;
        i += 1;
        let mut in_key = true;
        while i < b.len() && b[i] != b'#' {
            classes[i] = match b[i] {
                b'=' if in_key => {
                    in_key = false;
                    LC::Equals
                },
                b'&' => {
                    in_key = true;
                    LC::Amp
                },
                _ if in_key => LC::QualKey,
                _ => LC::QualValue,
            };
            i += 1;
        }
    }
    if i < b.len() && b[i] == b'#' {
        classes[i] = LC::Hash;
        i += 1;
        while i < b.len() {
            classes[i] = LC::Subpath;
            i += 1;
        }
    }
    // The second and third byte of every %XX triple: a fault there splits the escape.
    let mut j = 0;
    while j + 2 < b.len() {
        if b[j] == b'%' {
            classes[j + 1] = LC::InsideEscape;
            classes[j + 2] = LC::InsideEscape;
            j += 3;
        } else {
            j += 1;
        }
    }
    classes
}

/// Offset within the JSON literal `(json, map)` of canonical string `canon` for a layout position.
fn layout_offset(canon: &str, json_len: usize, map: &[usize], class: LC, k: usize) -> (usize, LC) {
    match class {
        LC::OpenQuote => (0, LC::OpenQuote),
        LC::CloseQuote => (json_len - 1, LC::CloseQuote),
        LC::AfterEnd => (json_len, LC::AfterEnd),
        _ => {
            let classes = layout(canon);
            let positions: Vec<usize> = classes.iter().enumerate().filter(|(_, c)| **c == class).map(|(i, _)| i).collect();
            if positions.is_empty() {
                // The PURL has no such component: fall back to some byte of the name or whatever is there.
                let i = if classes.is_empty() { 0 } else { k % classes.len() };
                (map[i], classes.get(i).copied().unwrap_or(LC::AfterEnd))
            } else {
                let i = positions[k % positions.len()];
                (map[i], class)
            }
        },
    }
}

// ---------------------------------------------------------------------------------------------
// An own string-only serializer: the general `fmt::Write` contract, independent of JSON.

#[derive(Debug)]
struct SerErr(String);

impl Display for SerErr {
    fn fmt(&self, f: &mut fmt::Formatter<'_>) -> fmt::Result {
        f.write_str(&self.0)
    }
}

impl std::error::Error for SerErr {}

impl serde::ser::Error for SerErr {
    fn custom<T: Display>(msg: T) -> Self {
        SerErr(msg.to_string())
    }
}

struct StringOnly<'a> {
    sink: &'a mut SimFmtSink,
    strings: &'a mut u32,
    /// bit 0: a binary format (`is_human_readable() == false`); bit 1: `collect_str` as serde's default
    /// does it (`to_string()` first, then `serialize_str`) instead of streaming `Display` into the sink;
    /// bit 2: `collect_str` formats the value twice - a measuring pass into a counter, then the real one.
    mode: usize,
}

macro_rules! refuse {
    ($($name:ident($($arg:ty),*);)*) => {
        $(fn $name(self $(, _: $arg)*) -> Result<(), SerErr> { Err(SerErr(concat!("not a string: ", stringify!($name)).to_owned())) })*
    };
}

impl<'a> serde::Serializer for StringOnly<'a> {
    type Error = SerErr;
    type Ok = ();
    type SerializeMap = Impossible<(), SerErr>;
    type SerializeSeq = Impossible<(), SerErr>;
    type SerializeStruct = Impossible<(), SerErr>;
    type SerializeStructVariant = Impossible<(), SerErr>;
    type SerializeTuple = Impossible<(), SerErr>;
    type SerializeTupleStruct = Impossible<(), SerErr>;
    type SerializeTupleVariant = Impossible<(), SerErr>;

    refuse! {
        serialize_bool(bool); serialize_i8(i8); serialize_i16(i16); serialize_i32(i32); serialize_i64(i64);
        serialize_u8(u8); serialize_u16(u16); serialize_u32(u32); serialize_u64(u64);
        serialize_f32(f32); serialize_f64(f64); serialize_char(char); serialize_bytes(&[u8]);
        serialize_none(); serialize_unit(); serialize_unit_struct(&'static str);
        serialize_unit_variant(&'static str, u32, &'static str);
    }

    fn serialize_str(self, v: &str) -> Result<(), SerErr> {
        *self.strings += 1;
        self.sink.write_str(v).map_err(|_| SerErr("sink failed".to_owned()))
    }

    fn collect_str<T: ?Sized + Display>(self, value: &T) -> Result<(), SerErr> {
        if self.mode & 2 != 0 {
            return self.serialize_str(&value.to_string());
        }
        *self.strings += 1;
        if self.mode & 4 != 0 {
            struct Counter(usize);
            impl fmt::Write for Counter {
                fn write_str(&mut self, s: &str) -> fmt::Result {
                    self.0 += s.len();
                    Ok(())
                }
            }
            let mut measure = Counter(0);
            write!(measure, "{}", value).map_err(|_| SerErr("measuring pass failed".to_owned()))?;
            self.sink.data.reserve(measure.0);
        }
        write!(self.sink, "{}", value).map_err(|_| SerErr("sink failed".to_owned()))
    }

    fn is_human_readable(&self) -> bool {
        self.mode & 1 == 0
    }

    fn serialize_some<T: ?Sized + Serialize>(self, _: &T) -> Result<(), SerErr> {
        Err(SerErr("not a string: some".to_owned()))
    }

    fn serialize_newtype_struct<T: ?Sized + Serialize>(self, _: &'static str, _: &T) -> Result<(), SerErr> {
        Err(SerErr("not a string: newtype struct".to_owned()))
    }

    fn serialize_newtype_variant<T: ?Sized + Serialize>(self, _: &'static str, _: u32, _: &'static str, _: &T) -> Result<(), SerErr> {
        Err(SerErr("not a string: newtype variant".to_owned()))
    }

    fn serialize_seq(self, _: Option<usize>) -> Result<Self::SerializeSeq, SerErr> {
        Err(SerErr("not a string: seq".to_owned()))
    }

    fn serialize_tuple(self, _: usize) -> Result<Self::SerializeTuple, SerErr> {
        Err(SerErr("not a string: tuple".to_owned()))
    }

    fn serialize_tuple_struct(self, _: &'static str, _: usize) -> Result<Self::SerializeTupleStruct, SerErr> {
        Err(SerErr("not a string: tuple struct".to_owned()))
    }

    fn serialize_tuple_variant(self, _: &'static str, _: u32, _: &'static str, _: usize) -> Result<Self::SerializeTupleVariant, SerErr> {
        Err(SerErr("not a string: tuple variant".to_owned()))
    }

    fn serialize_map(self, _: Option<usize>) -> Result<Self::SerializeMap, SerErr> {
        Err(SerErr("not a string: map".to_owned()))
    }

    fn serialize_struct(self, _: &'static str, _: usize) -> Result<Self::SerializeStruct, SerErr> {
        Err(SerErr("not a string: struct".to_owned()))
    }

    fn serialize_struct_variant(self, _: &'static str, _: u32, _: &'static str, _: usize) -> Result<Self::SerializeStructVariant, SerErr> {
        Err(SerErr("not a string: struct variant".to_owned()))
    }
}

/// A deserializer for a non-self-describing format holding one string.
struct HintOnly<'de> {
    input: &'de str,
    delivery: u8,
}

macro_rules! not_self_describing {
    ($($name:ident)*) => {
        $(fn $name<V: serde::de::Visitor<'de>>(self, _: V) -> Result<V::Value, ValueError> {
            Err(serde::de::Error::custom(concat!("not self-describing: ", stringify!($name), " is not what the data holds")))
        })*
    };
}

impl<'de> serde::Deserializer<'de> for HintOnly<'de> {
    type Error = ValueError;

    not_self_describing! {
        deserialize_any deserialize_bool deserialize_i8 deserialize_i16 deserialize_i32 deserialize_i64
        deserialize_u8 deserialize_u16 deserialize_u32 deserialize_u64 deserialize_f32 deserialize_f64
        deserialize_char deserialize_bytes deserialize_byte_buf deserialize_option deserialize_unit
        deserialize_seq deserialize_map deserialize_identifier deserialize_ignored_any
    }

    fn deserialize_str<V: serde::de::Visitor<'de>>(self, visitor: V) -> Result<V::Value, ValueError> {
        match self.delivery % 3 {
            0 => visitor.visit_str(self.input),
            1 => visitor.visit_borrowed_str(self.input),
            _ => visitor.visit_string(self.input.to_owned()),
        }
    }

    fn deserialize_string<V: serde::de::Visitor<'de>>(self, visitor: V) -> Result<V::Value, ValueError> {
        self.deserialize_str(visitor)
    }

    fn deserialize_unit_struct<V: serde::de::Visitor<'de>>(self, _: &'static str, _: V) -> Result<V::Value, ValueError> {
        Err(serde::de::Error::custom("not self-describing"))
    }

    fn deserialize_newtype_struct<V: serde::de::Visitor<'de>>(self, _: &'static str, _: V) -> Result<V::Value, ValueError> {
        Err(serde::de::Error::custom("not self-describing"))
    }

    fn deserialize_tuple<V: serde::de::Visitor<'de>>(self, _: usize, _: V) -> Result<V::Value, ValueError> {
        Err(serde::de::Error::custom("not self-describing"))
    }

    fn deserialize_tuple_struct<V: serde::de::Visitor<'de>>(self, _: &'static str, _: usize, _: V) -> Result<V::Value, ValueError> {
        Err(serde::de::Error::custom("not self-describing"))
    }

    fn deserialize_struct<V: serde::de::Visitor<'de>>(self, _: &'static str, _: &'static [&'static str], _: V) -> Result<V::Value, ValueError> {
        Err(serde::de::Error::custom("not self-describing"))
    }

    fn deserialize_enum<V: serde::de::Visitor<'de>>(self, _: &'static str, _: &'static [&'static str], _: V) -> Result<V::Value, ValueError> {
        Err(serde::de::Error::custom("not self-describing"))
    }

    fn is_human_readable(&self) -> bool {
        false
    }
}

// ---------------------------------------------------------------------------------------------
// Execution.

struct Item<T> {
    /// The PURL value to serialise (producer side), if this document has one.
    value: Option<GenericPurl<T>>,
    /// Clause 6 applies: obtained from the parser, or from the builder with clean namespace/subpath.
    round_trip_applies: bool,
    /// The string the document holds (None for a non-string document).
    string: Option<String>,
    /// The document's bytes as they should appear in the stream.
    json: Vec<u8>,
    /// Where the PURL literal (or the raw value standing in for it) sits within `json`.
    lit_start: usize,
    lit_len: usize,
    /// Offset map for layout positions (canonical documents only).
    map: Vec<usize>,
    /// What parsing `string` gives (None = refused or not a string).
    parsed: Option<GenericPurl<T>>,
    origin: &'static str,
}

fn clean_builder_value(spec: &BuiltSpec) -> bool {
    let ns_ok = spec.namespace.is_empty() || spec.namespace.split('/').all(|s| !s.is_empty());
    let sp_ok = spec.subpath.is_empty() || spec.subpath.split('/').all(|s| !s.is_empty() && s != "." && s != "..");
    ns_ok && sp_ok
}

fn wkind_name(k: WFault) -> &'static str {
    match k {
        WFault::Interrupted => "interrupted_write",
        WFault::HardOnce => "hard_write_error_once",
        WFault::HardSticky => "hard_write_error_sticky",
        WFault::WriteZero => "write_zero",
    }
}

fn rkind_name(k: RFault) -> &'static str {
    match k {
        RFault::Interrupted => "interrupted_read",
        RFault::HardOnce => "hard_read_error_once",
        RFault::HardSticky => "hard_read_error_sticky",
        RFault::Eof => "truncation",
    }
}

/// Deserialise `s` (as an in-memory string value) into `GenericPurl<X>` and compare with `from_str`.
fn echo_as<X>(s: &str, label: &str) -> Result<(), Violation>
where
    X: FromStr + PurlShape + PartialEq + Debug,
    <X as PurlShape>::Error: Display + From<<X as FromStr>::Err>,
{
    let expected = guarded(|| GenericPurl::<X>::from_str(s).ok())
        .map_err(|p| violation!("C16.panic_in_parse", "parsing {s:?} panicked: {p}"))?;
    let got = guarded(|| serde_json::from_value::<GenericPurl<X>>(serde_json::Value::String(s.to_owned())).ok())
        .map_err(|p| violation!("C16.panic_in_deserialize", "deserialising the string value {s:?} panicked: {p}"))?;
    match (expected, got) {
        (Some(p), Some(q)) if p == q => Ok(()),
        (None, None) => Ok(()),
        (Some(p), Some(q)) => Err(violation!("C16.deserialized_purl_differs", "echo through {label}: the string value {s:?} deserialised to {q}, parsing it gives {p}")),
        (None, Some(q)) => Err(violation!("C16.deserialize_accepts_what_parser_refuses", "echo through {label}: the parser refuses {s:?}, deserialising the string value gives {q}")),
        (Some(p), None) => Err(violation!("C16.deserialize_refuses_what_parser_accepts", "echo through {label}: the parser accepts {s:?} (as {p}), deserialising the string value fails")),
    }
}

/// The other built-in type parameter of the pair (GenericPurl<String>, Purl).
trait CrossShape {
    fn echo_other(s: &str) -> Result<(), Violation>;
}

impl CrossShape for String {
    fn echo_other(s: &str) -> Result<(), Violation> {
        #[cfg(feature = "full")]
        return echo_as::<purl::PackageType>(s, "the other type parameter (Purl)");
        #[cfg(not(feature = "full"))]
        {
            let _ = s;
            Ok(())
        }
    }
}

#[cfg(feature = "full")]
impl CrossShape for purl::PackageType {
    fn echo_other(s: &str) -> Result<(), Violation> {
        echo_as::<String>(s, "the other type parameter (GenericPurl<String>)")
    }
}

fn execute_typed<T, const K: u8>(sc: &Scenario, log: &mut Log, stats: &mut Stats) -> Result<bool, Violation>
where
    T: FromStr + PurlShape + PartialEq + Ord + Debug + Clone + CrossShape,
    <T as PurlShape>::Error: Display + From<<T as FromStr>::Err>,
{
    let pretty = sc.ser == SerKind::ToWriterPretty;
    let (prefix, suffix) = template::<K>(pretty);
    let embed = |lit: &[u8]| -> (Vec<u8>, usize, usize) {
        let mut doc = prefix.clone();
        doc.extend_from_slice(lit);
        doc.extend_from_slice(&suffix);
        (doc, prefix.len(), lit.len())
    };
    let parse = |s: &str| -> Result<Option<GenericPurl<T>>, Violation> {
        guarded(|| GenericPurl::<T>::from_str(s).ok())
            .map_err(|p| violation!("C16.panic_in_parse", "parsing {s:?} panicked: {p}"))
    };

    // 1. Materialise the documents.
    let mut items: Vec<Item<T>> = Vec::new();
    for spec in &sc.docs {
        match spec {
            DocSpec::Parsed { input } => match parse(input)? {
                Some(p) => {
                    // The canonical string is taken from a clone: the value the producer gets has never
                    // been formatted before, so its first formatting is the one into the faulty sink.
                    let canon = guarded(|| p.clone().to_string()).map_err(|e| violation!("C16.panic_in_display", "to_string() of the PURL parsed from {input:?} panicked: {e}"))?;
                    let (lit, map) = json_minimal(&canon);
                    let (json, lit_start, lit_len) = embed(lit.as_bytes());
                    let parsed = parse(&canon)?;
                    items.push(Item { value: Some(p), round_trip_applies: true, string: Some(canon), json, lit_start, lit_len, map, parsed, origin: "parsed" });
                },
                None => {
                    let (lit, map) = json_minimal(input);
                    let (json, lit_start, lit_len) = embed(lit.as_bytes());
                    items.push(Item { value: None, round_trip_applies: false, string: Some(input.clone()), json, lit_start, lit_len, map, parsed: None, origin: "refused_input" });
                },
            },
            DocSpec::Built(b) => {
                let Ok(ty) = T::from_str(&b.ty) else { continue };
                let mut builder = Some(
                    GenericPurlBuilder::new(ty, b.name.as_str())
                        .with_namespace(b.namespace.as_str())
                        .with_version(b.version.as_str())
                        .with_subpath(b.subpath.as_str()),
                );
                for (k, v) in &b.qualifiers {
                    builder = builder.and_then(|bb| bb.with_qualifier(k.as_str(), v.as_str()).ok());
                }
                let Some(mut builder) = builder else { continue };
                if let (Some(i), false) = (b.drop_qualifier, b.qualifiers.is_empty()) {
                    builder = builder.without_qualifier(b.qualifiers[i % b.qualifiers.len()].0.as_str());
                }
                if let Some((k, v)) = &b.direct_qualifier {
                    let _ = builder.parts.qualifiers.insert(k.as_str(), v.as_str());
                }
                if let Some((i, path, v)) = &b.edit_in_place {
                    let n = builder.parts.qualifiers.len();
                    let key = if n == 0 { None } else { builder.parts.qualifiers.iter().nth(i % n).map(|(k, _)| k.as_str().to_owned()) };
                    if let Some(key) = key {
                        let q = &mut builder.parts.qualifiers;
                        let key = key.as_str();
                        let edited = guarded(|| match path % 8 {
                            0 => {
                                if let Some(r) = q.get_mut(key) {
                                    *r = v.as_str().into();
                                }
                            },
                            1 => q[key] = v.as_str().into(),
                            2 => {
                                for (k, r) in q.iter_mut() {
                                    if k == key {
                                        *r = v.as_str().into();
                                    }
                                }
                            },
                            3 => {
                                if let Ok(purl::qualifiers::Entry::Occupied(mut o)) = q.entry(key) {
                                    *o.get_mut() = v.as_str().into();
                                }
                            },
                            4 => {
                                if let Ok(e) = q.entry(key) {
                                    let _ = e.and_modify(|r| *r = v.as_str().into());
                                }
                            },
                            5 => {
                                let old = q.get(key).unwrap_or("").to_owned();
                                if let Ok(r) = q.insert(key, old.as_str()) {
                                    *r = v.as_str().into();
                                }
                            },
                            6 => {
                                if let Ok(purl::qualifiers::Entry::Occupied(o)) = q.entry(key) {
                                    *o.into_mut() = v.as_str().into();
                                }
                            },
                            _ => {
                                for (k, r) in &mut *q {
                                    if k == key {
                                        *r = v.as_str().into();
                                    }
                                }
                            },
                        });
                        edited.map_err(|p| violation!("C16.panic_in_build", "editing qualifier {key:?} of {b:?} in place panicked: {p}"))?;
                    }
                }
                let built = guarded(move || builder.build().ok()).map_err(|p| violation!("C16.panic_in_build", "building {b:?} panicked: {p}"))?;
                let Some(p) = built else { continue };
                let canon = guarded(|| p.clone().to_string()).map_err(|e| violation!("C16.panic_in_display", "to_string() of the PURL built from {b:?} panicked: {e}"))?;
                let (lit, map) = json_minimal(&canon);
                let (json, lit_start, lit_len) = embed(lit.as_bytes());
                let parsed = parse(&canon)?;
                items.push(Item { value: Some(p), round_trip_applies: clean_builder_value(b), string: Some(canon), json, lit_start, lit_len, map, parsed, origin: "built" });
            },
            DocSpec::RawString { s, json_seed } => {
                let lit = json_spell(s, *json_seed);
                let (json, lit_start, lit_len) = embed(lit.as_bytes());
                let parsed = parse(s)?;
                items.push(Item { value: None, round_trip_applies: false, string: Some(s.clone()), json, lit_start, lit_len, map: Vec::new(), parsed, origin: "raw_string" });
            },
            DocSpec::RawJson { text } => {
                if K == 3 {
                    // A JSON object key is always a string; there is no non-string document in this lane.
                    continue;
                }
                let (json, lit_start, lit_len) = embed(text.as_bytes());
                items.push(Item { value: None, round_trip_applies: false, string: None, json, lit_start, lit_len, map: Vec::new(), parsed: None, origin: "raw_json" });
            },
        }
    }
    for (i, it) in items.iter().enumerate() {
        ev!(log, "doc {i} {} {} -> parser {}", it.origin, clip(&String::from_utf8_lossy(&it.json), 200), if it.parsed.is_some() { "accepts" } else { "refuses" });
    }
    if items.is_empty() {
        stats.bump("runs_without_documents");
        return Ok(false);
    }

    // Resolve a position to an offset within document `i` (relative to its start).
    let resolve = |pos: &Pos, i: usize| -> Option<(usize, Option<LC>)> {
        let it = &items[i];
        match *pos {
            Pos::Layout { doc, class, k } if doc % items.len() == i => {
                if !it.map.is_empty() {
                    let s = it.string.as_deref().unwrap_or("");
                    let (off, lc) = layout_offset(s, it.lit_len, &it.map, class, k);
                    if lc == LC::AfterEnd {
                        Some((it.json.len(), Some(lc)))
                    } else {
                        Some((it.lit_start + off, Some(lc)))
                    }
                } else {
                    Some((1 + k % it.json.len().saturating_sub(1).max(1), None))
                }
            },
            Pos::InDoc { doc, k } if doc % items.len() == i => {
                if it.json.len() >= 2 {
                    Some((1 + k % (it.json.len() - 1), None))
                } else {
                    Some((it.json.len(), None))
                }
            },
            Pos::Boundary { doc } if doc % items.len() == i => Some((it.json.len(), None)),
            _ => None,
        }
    };

    let (compact_prefix, compact_suffix) = template::<K>(false);
    let embed_compact = |i: usize| -> Vec<u8> {
        let it = &items[i];
        let mut doc = compact_prefix.clone();
        doc.extend_from_slice(&it.json[it.lit_start..it.lit_start + it.lit_len]);
        doc.extend_from_slice(&compact_suffix);
        doc
    };

    let mut nontrivial = false;
    let mut producer_clean = true;

    // 2. Producer: serialise every value into one sink.
    let mut writer = SimWriter::new(sc.w_chunk, &[]);
    for (pos, kind) in &sc.w_faults {
        if let Pos::Byte(n) = pos {
            writer.add_fault(*n, *kind);
        }
    }
    let mut produced: Vec<Option<Vec<u8>>> = vec![None; items.len()];
    let any_values = items.iter().any(|it| it.value.is_some());
    for (i, it) in items.iter().enumerate() {
        let Some(p) = &it.value else { continue };
        let canon = it.string.as_deref().unwrap_or("");
        let expected = &it.json;
        let base = writer.data.len();
        let mut class_of: Vec<(usize, LC)> = Vec::new();
        for (pos, kind) in &sc.w_faults {
            if let Some((off, lc)) = resolve(pos, i) {
                writer.add_fault(base + off, *kind);
                if let Some(lc) = lc {
                    class_of.push((base + off, lc));
                }
            }
        }
        let fired_before = writer.fired.len();
        let sticky_calls_before = writer.stats.calls_after_sticky;
        let mut fmt_fired: Vec<(usize, FmtFault)> = Vec::new();
        let ok: bool = match sc.ser {
            SerKind::ToWriter => guarded(|| serde_json::to_writer(&mut writer, &WS::<_, K>(p)).is_ok()),
            SerKind::ToWriterPretty => guarded(|| serde_json::to_writer_pretty(&mut writer, &WS::<_, K>(p)).is_ok()),
            SerKind::ToBufWriter { cap } => guarded(|| {
                let mut bw = BufWriter::with_capacity(cap, &mut writer);
                let r = serde_json::to_writer(&mut bw, &WS::<_, K>(p)).is_ok();
                r && bw.flush().is_ok()
            }),
            SerKind::ToVec => guarded(|| match serde_json::to_vec(&WS::<_, K>(p)) {
                Ok(v) => {
                    writer.push_raw(&v);
                    true
                },
                Err(_) => false,
            }),
            SerKind::ToString => guarded(|| match serde_json::to_string(&WS::<_, K>(p)) {
                Ok(v) => {
                    writer.push_raw(v.as_bytes());
                    true
                },
                Err(_) => false,
            }),
            SerKind::ToValue => guarded(|| match serde_json::to_value(&WS::<_, K>(p)) {
                Ok(value) => {
                    // An in-memory tree has no byte form of its own (object keys are sorted): compare it
                    // with the tree of the same wrapper around the canonical String.
                    let reference = serde_json::to_value(&WS::<String, K>(&canon.to_owned())).ok();
                    if Some(&value) == reference.as_ref() {
                        writer.push_raw(expected);
                    } else {
                        writer.push_raw(value.to_string().as_bytes());
                    }
                    true
                },
                Err(_) => false,
            }),
            SerKind::ViaFormatter { width, precision } => {
                struct Through<'a, P>(&'a P);
                impl<P: Serialize> Display for Through<'_, P> {
                    fn fmt(&self, f: &mut fmt::Formatter<'_>) -> fmt::Result {
                        self.0.serialize(f)
                    }
                }
                guarded(|| {
                    let text = match (width, precision) {
                        (0, 0) => format!("{}", Through(p)),
                        (w, 0) => format!("{:*>w$}", Through(p), w = w),
                        (0, pr) => format!("{:.pr$}", Through(p), pr = pr),
                        (w, pr) => format!("{:<w$.pr$}", Through(p), w = w, pr = pr),
                    };
                    // Two outcomes are legitimate. `collect_str(self)` formats the PURL itself, which
                    // ignores the flags; `serialize_str(&canonical_string)` hands serde's Formatter
                    // serializer a `str`, whose own `Display` pads and truncates - that is serde's and
                    // std's doing, applied to the right string. Anything else (flags applied to one
                    // piece of the PURL) is not the canonical string.
                    let padded = match (width, precision) {
                        (0, 0) => canon.to_owned(),
                        (w, 0) => format!("{:*>w$}", canon, w = w),
                        (0, pr) => format!("{:.pr$}", canon, pr = pr),
                        (w, pr) => format!("{:<w$.pr$}", canon, w = w, pr = pr),
                    };
                    if text == canon || text == padded {
                        writer.push_raw(expected);
                    } else {
                        writer.push_raw(json_minimal(&text).0.as_bytes());
                    }
                    true
                })
            },
            SerKind::OwnFmt => {
                let faults: Vec<(usize, FmtFault)> = sc
                    .f_faults
                    .iter()
                    .filter_map(|(pos, kind)| match pos {
                        Pos::Byte(n) => Some((*n, *kind)),
                        Pos::Layout { doc, class, k } if doc % items.len() == i => {
                            // Offsets in the canonical string itself (no JSON quoting in this lane).
                            let classes = layout(canon);
                            let positions: Vec<usize> = classes.iter().enumerate().filter(|(_, c)| *c == class).map(|(n, _)| n).collect();
                            let off = if positions.is_empty() { k % canon.len().max(1) } else { positions[k % positions.len()] };
                            Some((off, *kind))
                        },
                        Pos::InDoc { doc, k } if doc % items.len() == i => Some((k % canon.len().max(1), *kind)),
                        _ => None,
                    })
                    .collect();
                let mut sink = SimFmtSink::new(&faults);
                let mut strings = 0u32;
                let r = guarded(|| p.serialize(StringOnly { sink: &mut sink, strings: &mut strings, mode: sc.w_chunk }).is_ok());
                fmt_fired = sink.fired.clone();
                stats.add("io.fmt_write_str_calls", sink.calls);
                match r {
                    Ok(true) => {
                        if strings != 1 {
                            return Err(violation!("C16.not_a_single_string_value", "serialising {canon:?} emitted {strings} string values"));
                        }
                        writer.push_raw(json_minimal(&sink.data).0.as_bytes());
                        Ok(true)
                    },
                    Ok(false) => {
                        if strings == 0 {
                            return Err(violation!("C16.not_serialized_as_string", "serialising {canon:?} into a string-only serializer failed before any string was emitted: the value is not serialised as a string"));
                        }
                        writer.push_raw(json_minimal(&sink.data).0.as_bytes());
                        Ok(false)
                    },
                    Err(p) => Err(p),
                }
            },
        }
        .map_err(|e| violation!("C16.panic_in_serialize", "serialising {canon:?} with {:?} panicked: {e}", sc.ser))?;

        let accepted = writer.data[base..].to_vec();
        let new_fired = &writer.fired[fired_before..];
        let hard_fired = new_fired.iter().any(|(_, k)| !matches!(k, WFault::Interrupted))
            || writer.stats.calls_after_sticky > sticky_calls_before
            || !fmt_fired.is_empty();
        for (off, kind) in new_fired {
            let lc = class_of.iter().find(|(o, _)| o == off).map(|(_, l)| *l);
            stats.bump_dyn(format!("wfault.{}.{}", wkind_name(*kind), lc.map_or("unclassified".to_owned(), |l| format!("{l:?}"))));
            stats.bump_dyn(format!("fired.{}", wkind_name(*kind)));
            if *off > base && *off < base + expected.len() {
                nontrivial = true;
            }
        }
        for (_, kind) in &fmt_fired {
            stats.bump(match kind {
                FmtFault::Once => "fired.fmt_sink_error_once",
                FmtFault::Sticky => "fired.fmt_sink_error_sticky",
            });
            nontrivial = true;
        }
        ev!(log, "serialize doc {i} {:?} -> {} {} bytes, faults fired {:?} {:?}", sc.ser, if ok { "Ok" } else { "Err" }, accepted.len(), new_fired, fmt_fired);
        if ok {
            if accepted != *expected {
                return Err(violation!(
                    "C16.success_reported_but_bytes_differ",
                    "{:?} reported success, the sink holds {:?}, the canonical string as one JSON string is {:?} (faults fired: {:?} {:?})",
                    sc.ser,
                    String::from_utf8_lossy(&accepted),
                    String::from_utf8_lossy(expected),
                    new_fired,
                    fmt_fired
                ));
            }
            produced[i] = Some(accepted);
        } else {
            producer_clean = false;
            if !hard_fired {
                return Err(violation!(
                    "C16.spurious_serialize_error",
                    "{:?} of {canon:?} failed although no hard fault was injected (faults fired: {:?})",
                    sc.ser,
                    new_fired
                ));
            }
        }
        writer.push_raw(sc.sep.as_bytes());

        // Whatever happened to that attempt, the same value serialised again into a sink that cannot
        // fail is the canonical string (nothing of a broken-off write may stick to the value).
        let again = guarded(|| serde_json::to_vec(&WS::<_, K>(p)).ok())
            .map_err(|e| violation!("C16.panic_in_serialize", "serialising {canon:?} a second time panicked: {e}"))?;
        let expected_compact = if pretty { embed_compact(i) } else { expected.clone() };
        if again.as_deref() != Some(expected_compact.as_slice()) {
            return Err(violation!(
                "C16.second_serialisation_differs",
                "after a first attempt through {:?} ({}), serialising the same value again into a Vec gives {:?}, expected {:?}",
                sc.ser,
                if ok { "which succeeded" } else { "which failed" },
                again.map(|b| String::from_utf8_lossy(&b).into_owned()),
                String::from_utf8_lossy(&expected_compact)
            ));
        }
        let shown = guarded(|| p.to_string()).map_err(|e| violation!("C16.panic_in_display", "to_string() after serialising {canon:?} panicked: {e}"))?;
        if shown != canon {
            return Err(violation!(
                "C16.second_serialisation_differs",
                "after a first attempt through {:?} ({}), to_string() of the same value gives {shown:?}, it was {canon:?} before",
                sc.ser,
                if ok { "which succeeded" } else { "which failed" }
            ));
        }
    }
    if any_values {
        stats.add("io.write_calls", writer.stats.calls);
        stats.add("fired.short_write", writer.stats.short);
        stats.bump("producer_phases");
    }

    // 3. The stream the consumer sees: produced bytes where there are any, the raw documents otherwise.
    if !producer_clean {
        // A failed write leaves a torn stream; what a consumer makes of it is not purl's business.
        stats.bump("runs_ending_after_producer_error");
        return Ok(nontrivial);
    }
    let mut stream: Vec<u8> = Vec::new();
    let mut spans: Vec<(usize, usize)> = Vec::new();
    for (i, it) in items.iter().enumerate() {
        let start = stream.len();
        stream.extend_from_slice(produced[i].as_deref().unwrap_or(&it.json));
        spans.push((start, stream.len()));
        stream.extend_from_slice(sc.sep.as_bytes());
    }

    // What the consumer must report for document i when it was delivered completely.
    let judge_doc = |i: usize, got: Result<GenericPurl<T>, String>, how: &str| -> Result<(), Violation> {
        let it = &items[i];
        let shown = clip(&String::from_utf8_lossy(&it.json), 300).into_owned();
        match (&it.string, &it.parsed, got) {
            (None, _, Ok(q)) => Err(violation!("C16.non_string_value_accepted", "{how}: the non-string value {shown} deserialised to the PURL {q}")),
            (None, _, Err(_)) => Ok(()),
            (Some(s), None, Ok(q)) => Err(violation!("C16.deserialize_accepts_what_parser_refuses", "{how}: the parser refuses {s:?}, but the document {shown} deserialised to {q}")),
            (Some(_), None, Err(_)) => Ok(()),
            (Some(s), Some(p), Ok(q)) => {
                if q != *p || q.to_string() != p.to_string() {
                    return Err(violation!("C16.deserialized_purl_differs", "{how}: {shown} deserialised to {q}, parsing {s:?} gives {p}"));
                }
                if let (Some(v), true) = (&it.value, it.round_trip_applies) {
                    if q != *v {
                        return Err(violation!("C16.json_round_trip_changes_purl", "{how}: the PURL {v:?} came back as {q:?} after a JSON round trip through {shown}"));
                    }
                }
                Ok(())
            },
            (Some(s), Some(p), Err(e)) => Err(violation!("C16.deserialize_refuses_what_parser_accepts", "{how}: the parser accepts {s:?} (as {p}), but deserialising {shown} failed: {e}")),
        }
        .and_then(|()| {
            // Clause 6 also covers a canonical string that the parser itself refuses.
            if let (Some(v), true, None) = (&it.value, it.round_trip_applies, &it.parsed) {
                return Err(violation!(
                    "C16.json_round_trip_changes_purl",
                    "{how}: the PURL {v:?} is serialised as {shown}, which is refused when read back, so it does not survive a JSON round trip"
                ));
            }
            Ok(())
        })
    };

    // 4. Consumer.
    match sc.de {
        DeKind::ReaderStream { buf } | DeKind::ReaderSingle { buf } => {
            let single = matches!(sc.de, DeKind::ReaderSingle { .. });
            let (stream, spans): (Vec<u8>, Vec<(usize, usize)>) = if single {
                let mut s = stream[..spans[0].1].to_vec();
                s.extend_from_slice(sc.sep.as_bytes());
                (s, vec![spans[0]])
            } else {
                (stream, spans)
            };
            let mut faults: Vec<(usize, RFault)> = Vec::new();
            for (pos, kind) in &sc.r_faults {
                match pos {
                    Pos::Byte(n) => faults.push((*n, *kind)),
                    _ => {
                        for (i, span) in spans.iter().enumerate() {
                            if let Some((off, _)) = resolve(pos, i) {
                                faults.push((span.0 + off, *kind));
                            }
                        }
                    },
                }
            }
            let mut reader = SimReader::new(stream.clone(), sc.r_chunk, &faults);
            let results: Vec<Result<GenericPurl<T>, String>> = guarded(|| {
                let mut out = Vec::new();
                if single {
                    let r = if buf > 0 {
                        serde_json::from_reader::<_, W<GenericPurl<T>, K>>(BufReader::with_capacity(buf, &mut reader))
                    } else {
                        serde_json::from_reader::<_, W<GenericPurl<T>, K>>(&mut reader)
                    };
                    out.push(r.map(|w| w.0).map_err(|e| e.to_string()));
                } else if buf > 0 {
                    for r in serde_json::Deserializer::from_reader(BufReader::with_capacity(buf, &mut reader)).into_iter::<W<GenericPurl<T>, K>>().take(items.len() + 2) {
                        out.push(r.map(|w| w.0).map_err(|e| e.to_string()));
                    }
                } else {
                    for r in serde_json::Deserializer::from_reader(&mut reader).into_iter::<W<GenericPurl<T>, K>>().take(items.len() + 2) {
                        out.push(r.map(|w| w.0).map_err(|e| e.to_string()));
                    }
                }
                out
            })
            .map_err(|p| violation!("C16.panic_in_deserialize", "deserialising the stream {:?} panicked: {p}", String::from_utf8_lossy(&stream)))?;
            stats.add("io.read_calls", reader.stats.calls);
            stats.add("fired.short_read", reader.stats.short);
            for (_, kind) in &reader.fired {
                stats.bump_dyn(format!("fired.{}", rkind_name(*kind)));
            }
            let cut = reader.fired.iter().find(|(_, k)| !matches!(k, RFault::Interrupted)).copied();
            ev!(log, "consume {:?} stream of {} bytes, faults fired {:?} -> {:?}", sc.de, stream.len(), reader.fired, results.iter().map(|r| r.as_ref().map(|p| p.to_string()).map_err(|e| clip(e, 60).into_owned())).collect::<Vec<_>>());
            let mut results = results.into_iter();
            let mut stopped = false;
            for (i, span) in spans.iter().enumerate() {
                let how = format!("{:?}, document {i}", sc.de);
                let delivered = cut.map_or(true, |(c, _)| span.1 <= c);
                let hit_inside = cut.is_some_and(|(c, _)| span.0 < c && c < span.1);
                if delivered {
                    // For the single-document entry point a hard fault right behind the document may
                    // legitimately surface as an error of the trailing-data check.
                    let after_doc_fault = single && cut.is_some();
                    match results.next() {
                        Some(r) => {
                            if after_doc_fault && r.is_err() {
                                stopped = true;
                                break;
                            }
                            let was_err = r.is_err();
                            judge_doc(i, r, &how)?;
                            if was_err {
                                stopped = true;
                                break;
                            }
                        },
                        None => {
                            return Err(violation!("C16.document_lost", "{how}: the document was delivered completely but the consumer reported nothing for it"));
                        },
                    }
                } else if hit_inside {
                    nontrivial = true;
                    let kind = cut.map(|(_, k)| k);
                    stats.bump(if kind == Some(RFault::Eof) { "fired.truncation_inside_document" } else { "fired.hard_read_error_inside_document" });
                    match results.next() {
                        Some(Err(_)) => {},
                        Some(Ok(q)) => {
                            return Err(violation!(
                                "C16.truncated_document_yields_purl",
                                "{how}: the stream was cut inside the document ({:?}) and yet the consumer got the PURL {q}",
                                cut
                            ));
                        },
                        None => {
                            return Err(violation!("C16.truncated_document_silently_dropped", "{how}: the stream was cut inside the document ({:?}) and the consumer reported nothing", cut));
                        },
                    }
                    stopped = true;
                    break;
                } else {
                    // The cut lies at or before the start of this document: clean end or one error, never a PURL.
                    stats.bump("fired.cut_at_document_boundary");
                    if let Some(Ok(q)) = results.next() {
                        return Err(violation!("C16.purl_from_undelivered_document", "{how}: nothing of the document was delivered ({:?}) and yet the consumer got {q}", cut));
                    }
                    stopped = true;
                    break;
                }
            }
            if !stopped {
                if let Some(Ok(q)) = results.next() {
                    return Err(violation!("C16.extra_purl_from_stream", "{:?}: the consumer got an extra PURL {q} after the last document", sc.de));
                }
            }
            stats.bump("consumer_phases.reader");
        },
        DeKind::Slice | DeKind::Str | DeKind::Value | DeKind::SerdeStr(_) | DeKind::InPlace { .. } | DeKind::HintOnly(_) => {
            let previous = guarded(|| GenericPurl::<T>::from_str("pkg:npm/prev@0?a=1&checksum=md5:00&z=9#s").ok())
                .map_err(|p| violation!("C16.panic_in_parse", "parsing the previous value of the in-place lane panicked: {p}"))?;
            for (i, it) in items.iter().enumerate() {
                let bytes = &stream[spans[i].0..spans[i].1];
                let how = format!("{:?}, document {i}", sc.de);
                // The value a document is deserialised over (in-place lanes): the fixed unrelated one,
                // or - three documents in four, if it parses - one *related* to the incoming string:
                // its ASCII-upper-cased or ASCII-lower-cased spelling, or the very same PURL. What
                // was in place before must not shine through, however similar it is (r13c16-2 kept a
                // value that "is already in place" by a case-insensitive comparison).
                let previous = match (sc.de, &it.string) {
                    (DeKind::InPlace { .. }, Some(s)) if (i + s.len()) % 4 != 0 && s.is_char_boundary(4.min(s.len())) && s.len() > 4 => {
                        let (head, tail) = s.split_at(4);
                        let related = match (i + s.len()) % 4 {
                            1 => format!("{head}{}", tail.to_ascii_uppercase()),
                            2 => format!("{head}{}", tail.to_ascii_lowercase()),
                            _ => s.clone(),
                        };
                        guarded(|| GenericPurl::<T>::from_str(&related).ok())
                            .map_err(|p| violation!("C16.panic_in_parse", "parsing {related:?} (previous value of the in-place lane) panicked: {p}"))?
                            .or_else(|| previous.clone())
                    },
                    _ => previous.clone(),
                };
                let got: Result<GenericPurl<T>, String> = guarded(|| match (sc.de, &it.string) {
                    (DeKind::Slice, _) => serde_json::from_slice::<W<GenericPurl<T>, K>>(bytes).map(|w| w.0).map_err(|e| e.to_string()),
                    (DeKind::Str, _) => match std::str::from_utf8(bytes) {
                        Ok(s) => serde_json::from_str::<W<GenericPurl<T>, K>>(s).map(|w| w.0).map_err(|e| e.to_string()),
                        Err(e) => Err(e.to_string()),
                    },
                    (DeKind::InPlace { vec }, _) => match previous.clone() {
                        None => Err("harness: no previous value".to_owned()),
                        // (The string-only serializer lane has no wrapper, whatever `vec` says.)
                        Some(prev) if vec && K == 2 => {
                            let mut place = vec![prev];
                            let mut de = serde_json::Deserializer::from_slice(bytes);
                            match Deserialize::deserialize_in_place(&mut de, &mut place).and_then(|()| de.end()) {
                                Ok(()) => match (place.pop(), place.is_empty()) {
                                    (Some(p), true) => Ok(p),
                                    _ => Err("harness: expected exactly one element".to_owned()),
                                },
                                Err(e) => Err(e.to_string()),
                            }
                        },
                        Some(prev) => {
                            let mut place = prev;
                            let mut de = serde_json::Deserializer::from_slice(bytes);
                            match Deserialize::deserialize_in_place(&mut de, &mut place).and_then(|()| de.end()) {
                                Ok(()) => Ok(place),
                                Err(e) => Err(e.to_string()),
                            }
                        },
                    },
                    (DeKind::HintOnly(n), Some(s)) => {
                        GenericPurl::<T>::deserialize(HintOnly { input: s.as_str(), delivery: n }).map_err(|e| e.to_string())
                    },
                    (DeKind::SerdeStr(n), Some(s)) => match n % 4 {
                        0 => GenericPurl::<T>::deserialize(StrDeserializer::<ValueError>::new(s)).map_err(|e| e.to_string()),
                        1 => GenericPurl::<T>::deserialize(StringDeserializer::<ValueError>::new(s.clone())).map_err(|e| e.to_string()),
                        2 => GenericPurl::<T>::deserialize(BorrowedStrDeserializer::<ValueError>::new(s)).map_err(|e| e.to_string()),
                        _ => GenericPurl::<T>::deserialize(CowStrDeserializer::<ValueError>::new(Cow::Borrowed(s.as_str()))).map_err(|e| e.to_string()),
                    },
                    _ => match serde_json::from_slice::<serde_json::Value>(bytes) {
                        Ok(v) => serde_json::from_value::<W<GenericPurl<T>, K>>(v).map(|w| w.0).map_err(|e| e.to_string()),
                        Err(e) => Err(format!("harness: document is not JSON: {e}")),
                    },
                })
                .map_err(|p| violation!("C16.panic_in_deserialize", "{how}: deserialising {:?} panicked: {p}", String::from_utf8_lossy(bytes)))?;
                ev!(log, "consume doc {i} {:?} -> {:?}", sc.de, got.as_ref().map(|p| p.to_string()).map_err(|e| clip(e, 60).into_owned()));
                judge_doc(i, got, &how)?;
            }
            stats.bump("consumer_phases.in_memory");
        },
    }

    // 5. Values that are not strings, through serde's own value deserializers (fixed menu).
    let refused = |name: &str, r: Result<GenericPurl<T>, ValueError>| -> Result<(), Violation> {
        match r {
            Ok(q) => Err(violation!("C16.non_string_value_accepted", "serde's {name} deserializer produced the PURL {q}")),
            Err(_) => Ok(()),
        }
    };
    guarded(|| -> Result<(), Violation> {
        refused("u64", GenericPurl::<T>::deserialize(U64Deserializer::<ValueError>::new(7)))?;
        refused("i64", GenericPurl::<T>::deserialize(I64Deserializer::<ValueError>::new(-1)))?;
        refused("f64", GenericPurl::<T>::deserialize(F64Deserializer::<ValueError>::new(1.5)))?;
        refused("bool", GenericPurl::<T>::deserialize(BoolDeserializer::<ValueError>::new(true)))?;
        refused("unit", GenericPurl::<T>::deserialize(UnitDeserializer::<ValueError>::new()))?;
        // "pkg:npm/b" is a PURL for both type parameters, so only the kind of value is in the way.
        refused("seq of strings", GenericPurl::<T>::deserialize(SeqDeserializer::<_, ValueError>::new(vec!["pkg:npm/b"].into_iter())))?;
        refused("seq of chars", GenericPurl::<T>::deserialize(SeqDeserializer::<_, ValueError>::new("pkg:npm/b".chars())))?;
        refused("seq of bytes", GenericPurl::<T>::deserialize(SeqDeserializer::<_, ValueError>::new(b"pkg:npm/b".iter().copied())))?;
        refused("map", GenericPurl::<T>::deserialize(MapDeserializer::<_, ValueError>::new(vec![("purl", "pkg:npm/b")].into_iter())))?;
        // In serde's data model a byte string is not a string.
        refused("bytes", GenericPurl::<T>::deserialize(BytesDeserializer::<ValueError>::new(b"pkg:npm/b")))?;
        refused("borrowed bytes", GenericPurl::<T>::deserialize(BorrowedBytesDeserializer::<ValueError>::new(b"pkg:npm/b")))?;
        Ok(())
    })
    .map_err(|p| violation!("C16.panic_in_deserialize", "a serde value deserializer run panicked: {p}"))??;

    // 6. Echo: every string document once more through the other type parameter and then again
    // through this one. Each call stands alone, so the answers must not depend on what was
    // deserialised before (a cache keyed on the string but not on the type would show here).
    for it in &items {
        if let Some(s) = &it.string {
            T::echo_other(s)?;
            echo_as::<T>(s, "the same type parameter again")?;
            stats.bump("cross_type_echoes");
        }
    }

    // Reach: which (layout class) x (fault kind) cells were hit is in the counters; the tuple set
    // here is (serializer, deserializer, type parameter, document origins).
    let mut h = Fnv::default();
    h.write(format!("{:?}|{:?}|{:?}|{:?}", sc.ser, sc.de, sc.ty, K).as_bytes());
    for it in &items {
        h.write(it.origin.as_bytes());
    }
    stats.reach(h.finish());
    Ok(nontrivial)
}

pub struct C16;

const RAW_JSON: &[&str] = &[
    "null", "true", "false", "0", "1", "-1", "1.5", "1e3", "[]", "[\"pkg:a/b\"]", "{}", "{\"purl\":\"pkg:a/b\"}",
    "[[]]", "{\"a\":[1,\"pkg:a/b\"]}", "[\"p\",\"k\",\"g\"]", "18446744073709551616", "[112,107,103]",
];

impl Sim for C16 {
    type Scenario = Scenario;

    fn id(&self) -> &'static str {
        "C16"
    }

    fn generate(&self, seed: u64) -> Scenario {
        let mut rng = Rng::new(seed);
        let ty = if rng.chance(1, 2) { Ty::Generic } else { Ty::Typed };
        let known = ty == Ty::Typed;
        let n_docs = *rng.pick(&[1usize, 1, 1, 2, 2, 3, 4]);
        // Swarm: which document kinds this run uses.
        let producer_heavy = rng.chance(2, 3);
        let mut docs = Vec::new();
        for _ in 0..n_docs {
            let roll = rng.below(10);
            let doc = if producer_heavy && roll < 6 || roll < 2 {
                if rng.chance(1, 4) {
                    // Any string at all; if the parser refuses it the document becomes a raw string.
                    DocSpec::Parsed { input: gen::any_input(&mut rng, known) }
                } else {
                    let c = gen::components(&mut rng, known);
                    DocSpec::Parsed { input: gen::spell(&c, if rng.chance(1, 3) { 0 } else { rng.subseed() }) }
                }
            } else if producer_heavy && roll < 8 || roll < 3 {
                let c = gen::components(&mut rng, known);
                DocSpec::Built(BuiltSpec {
                    ty: c.ty,
                    namespace: if rng.chance(1, 6) { (*rng.pick(&["a//b", "/a", "a/"])).to_owned() } else { c.namespace.join("/") },
                    name: c.name,
                    version: c.version,
                    qualifiers: {
                        let mut q = c.qualifiers;
                        if rng.chance(1, 5) {
                            // Empty values are dropped by build(); they must leave no trace.
                            q.insert(0, ((*rng.pick(&["arch", "a", "zz", "b0"])).to_owned(), String::new()));
                        }
                        q
                    },
                    subpath: if rng.chance(1, 6) { (*rng.pick(&["a/./b", "../a", "a//b"])).to_owned() } else { c.subpath.join("/") },
                    drop_qualifier: if rng.chance(1, 4) { Some(rng.below(4)) } else { None },
                    direct_qualifier: if rng.chance(1, 5) {
                        Some(((*rng.pick(&["repository_url", "arch", "zz", "checksum"])).to_owned(), if rng.chance(2, 3) { String::new() } else { "x".to_owned() }))
                    } else {
                        None
                    },
                    edit_in_place: if rng.chance(1, 4) {
                        Some((rng.below(6), rng.below(8), (*rng.pick(&["", "x", "x86_64", "a&b=c", "%41 +", "é/?#", "0123456789abcdef0123456789abcdef"])).to_owned()))
                    } else {
                        None
                    },
                })
            } else if roll < 9 {
                DocSpec::RawString { s: gen::any_input(&mut rng, known), json_seed: if rng.chance(1, 2) { 0 } else { rng.subseed() } }
            } else {
                DocSpec::RawJson { text: (*rng.pick(RAW_JSON)).to_owned() }
            };
            docs.push(doc);
        }
        let sep = (*rng.pick(&["\n", "\n", " ", "", "\r\n", "\t"])).to_owned();
        let ser = match rng.below(13) {
            12 => SerKind::ViaFormatter { width: *rng.pick(&[0usize, 0, 3, 12, 40, 300]), precision: *rng.pick(&[0usize, 0, 1, 2, 7, 50]) },
            0..=4 => SerKind::ToWriter,
            5 => SerKind::ToWriterPretty,
            6 => SerKind::ToBufWriter { cap: *rng.pick(&[1usize, 2, 5, 16, 64]) },
            7 => SerKind::ToVec,
            8 => SerKind::ToString,
            9 => SerKind::ToValue,
            _ => SerKind::OwnFmt,
        };
        let de = match rng.below(14) {
            12 => DeKind::InPlace { vec: rng.chance(1, 2) },
            13 => DeKind::HintOnly(rng.below(3) as u8),
            0..=3 => SerKindDe::stream(&mut rng),
            4 => DeKind::ReaderSingle { buf: *rng.pick(&[0usize, 0, 3, 64]) },
            5 | 6 => DeKind::Slice,
            7 | 8 => DeKind::Str,
            9 => DeKind::Value,
            _ => DeKind::SerdeStr(rng.below(4) as u8),
        };
        let chunk = |rng: &mut Rng| *rng.pick(&[0usize, 0, 0, 1, 2, 3, 7, 4, 5]);
        let n_faults = |rng: &mut Rng| match rng.below(20) {
            0..=5 => 0,
            6..=14 => 1,
            15..=18 => 2,
            _ => 3,
        };
        let pos = |rng: &mut Rng| match rng.below(10) {
            0..=6 => Pos::Layout { doc: rng.below(n_docs), class: *rng.pick(ALL_LC), k: rng.below(64) },
            7 => Pos::InDoc { doc: rng.below(n_docs), k: rng.below(256) },
            8 => Pos::Boundary { doc: rng.below(n_docs) },
            _ => Pos::Byte(rng.below(80)),
        };
        let w_faults = (0..n_faults(&mut rng))
            .map(|_| {
                (pos(&mut rng), *rng.pick(&[WFault::Interrupted, WFault::HardOnce, WFault::HardOnce, WFault::HardSticky, WFault::HardSticky, WFault::WriteZero]))
            })
            .collect();
        // Read faults less often: they end the stream, so most consumer runs should be undisturbed.
        let r_faults = if rng.chance(1, 2) {
            (0..n_faults(&mut rng))
                .map(|_| (pos(&mut rng), *rng.pick(&[RFault::Interrupted, RFault::Interrupted, RFault::HardOnce, RFault::HardSticky, RFault::Eof, RFault::Eof])))
                .collect()
        } else {
            Vec::new()
        };
        let f_faults = (0..n_faults(&mut rng)).map(|_| (pos(&mut rng), *rng.pick(&[FmtFault::Once, FmtFault::Once, FmtFault::Sticky]))).collect();
        let wrap = *rng.pick(&[Wrap::Bare, Wrap::Bare, Wrap::Bare, Wrap::Bare, Wrap::Struct, Wrap::Struct, Wrap::Seq, Wrap::MapKey, Wrap::MapKey, Wrap::Opt, Wrap::Pair, Wrap::Untagged, Wrap::Tagged]);
        Scenario { ty, wrap, docs, sep, ser, de, w_chunk: chunk(&mut rng), w_faults, r_chunk: chunk(&mut rng), r_faults, f_faults }
    }

    fn execute(&self, sc: &Scenario, log: &mut Log, stats: &mut Stats) -> Result<bool, Violation> {
        ev!(log, "scenario ty={:?} wrap={:?} ser={:?} de={:?} w_chunk={} r_chunk={} w_faults={:?} r_faults={:?} f_faults={:?}", sc.ty, sc.wrap, sc.ser, sc.de, sc.w_chunk, sc.r_chunk, sc.w_faults, sc.r_faults, sc.f_faults);
        // The string-only lanes have no room for a wrapper.
        let wrap = match sc.de {
            _ if sc.ser == SerKind::OwnFmt || matches!(sc.ser, SerKind::ViaFormatter { .. }) => Wrap::Bare,
            DeKind::SerdeStr(_) | DeKind::HintOnly(_) | DeKind::InPlace { vec: false } => Wrap::Bare,
            DeKind::InPlace { vec: true } => Wrap::Seq,
            _ => sc.wrap,
        };
        stats.bump(match wrap {
            Wrap::Bare => "wrap.bare",
            Wrap::Struct => "wrap.struct_field",
            Wrap::Seq => "wrap.seq_element",
            Wrap::MapKey => "wrap.map_key",
            Wrap::Opt => "wrap.option",
            Wrap::Pair => "wrap.tuple_element",
            Wrap::Untagged => "wrap.untagged_enum",
            Wrap::Tagged => "wrap.internally_tagged_enum",
        });
        macro_rules! go {
            ($t:ty) => {
                match wrap.code() {
                    1 => execute_typed::<$t, 1>(sc, log, stats),
                    2 => execute_typed::<$t, 2>(sc, log, stats),
                    3 => execute_typed::<$t, 3>(sc, log, stats),
                    4 => execute_typed::<$t, 4>(sc, log, stats),
                    5 => execute_typed::<$t, 5>(sc, log, stats),
                    6 => execute_typed::<$t, 6>(sc, log, stats),
                    7 => execute_typed::<$t, 7>(sc, log, stats),
                    _ => execute_typed::<$t, 0>(sc, log, stats),
                }
            };
        }
        #[cfg(feature = "full")]
        if sc.ty == Ty::Typed {
            stats.bump("type_parameter.Purl");
            return go!(purl::PackageType);
        }
        stats.bump("type_parameter.GenericPurl<String>");
        go!(String)
    }

    fn shrink_candidates(&self, sc: &Scenario) -> Vec<Scenario> {
        let mut out = Vec::new();
        for i in 0..sc.docs.len() {
            if sc.docs.len() > 1 {
                let mut s = sc.clone();
                s.docs.remove(i);
                out.push(s);
            }
        }
        macro_rules! drop_each {
            ($field:ident) => {
                for i in 0..sc.$field.len() {
                    let mut s = sc.clone();
                    s.$field.remove(i);
                    out.push(s);
                }
            };
        }
        drop_each!(w_faults);
        drop_each!(r_faults);
        drop_each!(f_faults);
        if sc.w_chunk != 0 {
            let mut s = sc.clone();
            s.w_chunk = 0;
            out.push(s);
        }
        if sc.r_chunk != 0 {
            let mut s = sc.clone();
            s.r_chunk = 0;
            out.push(s);
        }
        if sc.ser != SerKind::ToWriter {
            let mut s = sc.clone();
            s.ser = SerKind::ToWriter;
            out.push(s);
        }
        if sc.de != DeKind::Str {
            let mut s = sc.clone();
            s.de = DeKind::Str;
            out.push(s);
        }
        if sc.ty != Ty::Generic {
            let mut s = sc.clone();
            s.ty = Ty::Generic;
            out.push(s);
        }
        if sc.wrap != Wrap::Bare {
            let mut s = sc.clone();
            s.wrap = Wrap::Bare;
            out.push(s);
        }
        if sc.sep != "\n" {
            let mut s = sc.clone();
            s.sep = "\n".into();
            out.push(s);
        }
        // Simpler documents.
        for (i, d) in sc.docs.iter().enumerate() {
            let text = match d {
                DocSpec::Parsed { input } => Some(input),
                DocSpec::RawString { s, .. } => Some(s),
                _ => None,
            };
            if let Some(text) = text {
                let mk = |t: String| match d {
                    DocSpec::Parsed { .. } => DocSpec::Parsed { input: t },
                    _ => DocSpec::RawString { s: t, json_seed: 0 },
                };
                for sep in ['#', '?', '@'] {
                    if let Some(at) = text.rfind(sep) {
                        let mut s = sc.clone();
                        s.docs[i] = mk(text[..at].to_owned());
                        out.push(s);
                    }
                }
                if let DocSpec::RawString { json_seed, s: raw } = d {
                    if *json_seed != 0 {
                        let mut s = sc.clone();
                        s.docs[i] = DocSpec::RawString { s: raw.clone(), json_seed: 0 };
                        out.push(s);
                    }
                }
                for shorter in string_shrinks(text) {
                    let mut s = sc.clone();
                    s.docs[i] = mk(shorter);
                    out.push(s);
                }
            }
            if let DocSpec::Built(b) = d {
                let mut variants = Vec::new();
                if !b.namespace.is_empty() {
                    variants.push(BuiltSpec { namespace: String::new(), ..b.clone() });
                }
                if !b.version.is_empty() {
                    variants.push(BuiltSpec { version: String::new(), ..b.clone() });
                }
                if !b.subpath.is_empty() {
                    variants.push(BuiltSpec { subpath: String::new(), ..b.clone() });
                }
                for q in 0..b.qualifiers.len() {
                    let mut v = b.clone();
                    v.qualifiers.remove(q);
                    variants.push(v);
                }
                if b.name != "n" {
                    variants.push(BuiltSpec { name: "n".into(), ..b.clone() });
                }
                if b.edit_in_place.is_some() {
                    variants.push(BuiltSpec { edit_in_place: None, ..b.clone() });
                }
                if b.direct_qualifier.is_some() {
                    variants.push(BuiltSpec { direct_qualifier: None, ..b.clone() });
                }
                if b.drop_qualifier.is_some() {
                    variants.push(BuiltSpec { drop_qualifier: None, ..b.clone() });
                }
                for v in variants {
                    let mut s = sc.clone();
                    s.docs[i] = DocSpec::Built(v);
                    out.push(s);
                }
            }
        }
        out
    }

    fn rule(&self) -> &'static str {
        "A case is one run of a producer/consumer pair over a simulated byte pipe: 1-4 documents (PURL values from the \
         parser or the builder, for GenericPurl<String> or Purl; consumer-only JSON strings holding valid / defective / \
         mutated spellings; non-string JSON values), one of 7 serialiser lanes and 6 deserialiser lanes, chunk sizes, and \
         0-3 faults per side placed by layout class of the canonical string (inside the type, at each separator, inside \
         each component, inside a %XX triple, at the quotes, at document boundaries). Non-trivial: at least one fault \
         fired strictly inside a document (not between documents, not after the end). Distinct: distinct event-log \
         digests among non-trivial runs."
    }

    fn components(&self) -> serde_json::Value {
        json!({
            "real": ["purl Serialize (collect_str of Display), Display, Deserialize visitor, parser, builder", "serde 1.0.164 (Serializer/Deserializer traits, de::value deserializers)", "serde_json 1.0.99 (to_writer, to_writer_pretty, to_vec, to_string, to_value, from_reader, StreamDeserializer, from_slice, from_str, from_value)", "std::io::BufWriter / BufReader / write_all / io::Bytes"],
            "stub": ["SimWriter (io::Write with short writes and faults)", "SimReader (io::Read with short reads, faults, truncation)", "SimFmtSink (fmt::Write with faults)", "StringOnly (own string-only serde::Serializer streaming Display into SimFmtSink)"],
        })
    }

    fn assumptions(&self) -> Vec<String> {
        vec![
            "'parsing that string succeeds' is taken from the library's own FromStr on the same string (the property is a statement relative to the parser)".into(),
            "the canonical string is p.to_string() into an infallible String sink; the JSON literal of it is computed by the harness' own escaper".into(),
            "clause 6 (round trip unchanged) is applied to parser-made values and to builder-made values whose namespace/subpath contain no empty, '.' or '..' segments; the builder does not normalise those".into(),
            "after a failed write the torn stream is not fed to the consumer; after the first consumer error nothing further is required of the stream except that no PURL appears for an undelivered document".into(),
            "not asserted: error texts, bytes that reached the sink before an error, number and size of write calls; byte strings and char are not in the non-string menu".into(),
            "serde_json is the only real byte format on this image; the StringOnly + SimFmtSink lane covers the general fmt::Write contract".into(),
        ]
    }

    fn evidence_extra(&self, stats: &Stats, _quick: bool) -> (serde_json::Value, Vec<String>) {
        let mut unmet = Vec::new();
        let mut table = serde_json::Map::new();
        let mut empty_cells = Vec::new();
        for kind in ["interrupted_write", "hard_write_error_once", "hard_write_error_sticky", "write_zero"] {
            let mut row = serde_json::Map::new();
            for lc in ALL_LC {
                if *lc == LC::AfterEnd {
                    continue;
                }
                let n = stats.get(&format!("wfault.{kind}.{lc:?}"));
                row.insert(format!("{lc:?}"), json!(n));
                if n == 0 {
                    empty_cells.push(format!("{kind} x {lc:?}"));
                    if kind.starts_with("hard_write_error") {
                        unmet.push(format!("no {kind} fired at layout class {lc:?}"));
                    }
                }
            }
            table.insert(kind.to_owned(), serde_json::Value::Object(row));
        }
        let kinds = [
            "fired.short_write", "fired.short_read", "fired.interrupted_write", "fired.interrupted_read",
            "fired.hard_write_error_once", "fired.hard_write_error_sticky", "fired.write_zero",
            "fired.hard_read_error_once", "fired.hard_read_error_sticky", "fired.truncation",
            "fired.truncation_inside_document", "fired.hard_read_error_inside_document", "fired.cut_at_document_boundary",
            "fired.fmt_sink_error_once", "fired.fmt_sink_error_sticky",
        ];
        let mut fired = serde_json::Map::new();
        for k in kinds {
            fired.insert(k.trim_start_matches("fired.").to_owned(), json!(stats.get(k)));
            if stats.get(k) == 0 {
                unmet.push(format!("fault kind {k} never fired"));
            }
        }
        (
            json!({
                "distinct_states_measure": "distinct tuples (serialiser lane, deserialiser lane, type parameter, document origins); the fault placement reach is the table below",
                "distinct_states": stats.reach.len(),
                "fault_kinds_fired": fired,
                "write_faults_fired_by_layout_class": table,
                "empty_cells": empty_cells,
                "io_calls": {
                    "write": stats.get("io.write_calls"),
                    "read": stats.get("io.read_calls"),
                    "fmt_write_str": stats.get("io.fmt_write_str_calls"),
                },
            }),
            unmet,
        )
    }
}

/// Helper namespace for generator code.
struct SerKindDe;

impl SerKindDe {
    fn stream(rng: &mut Rng) -> DeKind {
        DeKind::ReaderStream { buf: *rng.pick(&[0usize, 0, 1, 3, 8, 64]) }
    }
}
