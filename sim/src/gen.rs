//! Workload generators shared by the simulators: component alphabets, PURL spellings, defects.
//!
//! Nothing here is an oracle. Where a check needs to know whether a generated string is a
//! valid PURL it asks the type-agnostic parser (differential), never this module.

use serde::{Deserialize, Serialize};

use crate::rng::Rng;

/// Separator-rich atoms used in every component position.
pub const ATOMS: &[&str] = &[
    "a", "A", "b", "Z", "x1", "1", "0", "-", ".", "..", "_", "+", " ", "%", "%41", "%2F", "%2f",
    "%2e", "...", "....", "@", "?", "#", "&", "=", ":", ",", "/", "//", "\\", "\"", "<", ">", "`", "{", "}", "|",
    "^", "[", "]", "~", "!", "$", "'", "(", ")", "*", ";", "é", "É", "ß", "ǅ", "İ", "日本", "😀",
    "\u{7f}", "\n", "\t", "\0", "\u{1b}", "\u{80}", "\u{a0}", "\u{2028}", "\u{feff}", "pkg:", "lib",
    "core", "v1.2.3", "1.0.0-rc.1+build", "sha1:00",
];

pub const PLAIN_ATOMS: &[&str] =
    &["a", "b", "c", "lib", "core", "x1", "1", "2", "foo", "Bar", "baz-qux", "name", "v1", "1.2.3"];

pub const KNOWN_TYPES: &[&str] = &["cargo", "gem", "golang", "maven", "npm", "nuget", "pypi"];

pub const OTHER_TYPES: &[&str] = &[
    "generic", "deb", "rpm", "docker", "github", "oci", "t", "x-y", "a.b", "c++", "t1", "conan",
    // Valid type strings need not start with a letter.
    "7zip", "3d", ".net", "+x", "-y", "0",
    "a-rather-long-package-type-name.with+all-the.allowed+characters-0123456789",
];

const TYPE_TAIL: &[u8] = b"abcxyzABCXYZ019.+-";
const KEY_TAIL: &[u8] = b"abckzABCKZ019._-";

#[derive(Clone, Debug, Default, PartialEq, Eq, Serialize, Deserialize)]
pub struct Components {
    pub ty: String,
    pub namespace: Vec<String>,
    pub name: String,
    pub version: String,
    pub qualifiers: Vec<(String, String)>,
    pub subpath: Vec<String>,
}

pub fn ascii_case_flip(s: &str, rng: &mut Rng, num: usize, den: usize) -> String {
    s.chars()
        .map(|c| {
            if c.is_ascii_alphabetic() && rng.chance(num, den) {
                if c.is_ascii_lowercase() {
                    c.to_ascii_uppercase()
                } else {
                    c.to_ascii_lowercase()
                }
            } else {
                c
            }
        })
        .collect()
}

/// A syntactically valid type string, any letter case.
pub fn type_string(rng: &mut Rng, known_bias: bool) -> String {
    let base = match rng.below(10) {
        0..=4 if known_bias => (*rng.pick(KNOWN_TYPES)).to_owned(),
        0..=2 => (*rng.pick(KNOWN_TYPES)).to_owned(),
        3..=6 => (*rng.pick(OTHER_TYPES)).to_owned(),
        _ => {
            let mut s = String::new();
            s.push(*rng.pick(b"abtxABTX") as char);
            for _ in 0..rng.below(6) {
                s.push(*rng.pick(TYPE_TAIL) as char);
            }
            s
        },
    };
    if rng.chance(1, 3) {
        ascii_case_flip(&base, rng, 1, 2)
    } else {
        base
    }
}

/// A valid qualifier key, any letter case.
pub fn qualifier_key(rng: &mut Rng) -> String {
    const COMMON: &[&str] = &[
        "arch", "os", "repository_url", "download_url", "vcs_url", "file_name", "classifier",
        "type", "k", "a", "b", "z", "tag", "channel", "x.y", "a-b", "k_1", "check_only", "checks", "checksumz",
        "_x", "c", "d", "distro", "ext", "platform", "variant",
    ];
    let base = if rng.chance(1, 20) {
        // A long key, or one mixing every allowed character class.
        (*rng.pick(&["a-very-long-qualifier-key.with_every-allowed.character_class-0123456789", "k0.1-2_3", "x_y_z", "q9", "repository_url_mirror"])).to_owned()
    } else if rng.chance(2, 3) {
        (*rng.pick(COMMON)).to_owned()
    } else {
        let mut s = String::new();
        s.push(*rng.pick(b"abkzABKZ") as char);
        for _ in 0..rng.below(5) {
            s.push(*rng.pick(KEY_TAIL) as char);
        }
        s
    };
    if rng.chance(1, 3) {
        ascii_case_flip(&base, rng, 1, 2)
    } else {
        base
    }
}

/// A component value: mostly plain, often separator-rich.
pub fn component(rng: &mut Rng, rich: bool) -> String {
    if rng.chance(1, 40) {
        // A value of a boundary length (small-string inline capacity, powers of two and their
        // neighbours, very rarely beyond 64 KiB): buffers, chunking, length fields, fast paths.
        const LENGTHS: &[usize] = &[
            15, 16, 17, 22, 23, 24, 25, 31, 32, 33, 63, 64, 65, 127, 128, 129, 255, 256, 257, 300, 511, 512, 513,
            1023, 1024, 1025, 4095, 4096, 4097,
        ];
        let unit = *rng.pick(&["abcdefghij", "https://example.com/path/", "0123456789abcdef", "é", "x", "a b", "%41", "Lib-", "A"]);
        let target = if rng.chance(1, 60) { *rng.pick(&[65_535usize, 65_536, 66_000]) } else { *rng.pick(LENGTHS) };
        let mut s = String::new();
        while s.len() + unit.len() <= target {
            s.push_str(unit);
        }
        // Fill up to the exact byte length with single-byte characters.
        while s.len() < target {
            s.push('z');
        }
        return s;
    }
    let n = match rng.below(8) {
        0..=3 => 1,
        4..=5 => 2,
        6 => 3,
        _ => rng.range(4, 6),
    };
    let mut s = String::new();
    for _ in 0..n {
        if rich && rng.chance(1, 2) {
            s.push_str(*rng.pick(ATOMS));
        } else {
            s.push_str(*rng.pick(PLAIN_ATOMS));
        }
    }
    s
}

/// A path segment: a component without '/', not empty.
pub fn segment(rng: &mut Rng, rich: bool) -> String {
    let s: String = component(rng, rich).chars().filter(|c| *c != '/').collect();
    if s.is_empty() {
        "seg".to_owned()
    } else {
        s
    }
}

pub fn components(rng: &mut Rng, known_bias: bool) -> Components {
    let rich = rng.chance(2, 3);
    let mut c = Components { ty: type_string(rng, known_bias), ..Default::default() };
    let needs_ns = c.ty.eq_ignore_ascii_case("maven");
    if needs_ns || rng.chance(1, 2) {
        let n = if rng.chance(1, 30) { *rng.pick(&[8usize, 16, 33]) } else { rng.range(1, 3) };
        for _ in 0..n {
            c.namespace.push(segment(rng, rich));
        }
    }
    c.name = component(rng, rich);
    if rng.chance(1, 2) {
        c.version = component(rng, rich);
    }
    if rng.chance(1, 2) {
        // Mostly a handful of qualifiers, now and then more than eight (search strategies that
        // switch with the size of the list).
        let n = match rng.below(24) {
            0 => rng.range(9, 14),
            1 => *rng.pick(&[15usize, 16, 17, 31, 32, 33]),
            _ => rng.range(1, 4),
        };
        for _ in 0..n {
            let k = qualifier_key(rng);
            if c.qualifiers.iter().any(|(e, _)| e.eq_ignore_ascii_case(&k))
                || k.eq_ignore_ascii_case("checksum")
            {
                continue;
            }
            c.qualifiers.push((k, component(rng, rich)));
        }
        if rng.chance(1, 4) {
            c.qualifiers.push(("checksum".to_owned(), checksum_text(rng, true)));
        }
    }
    if rng.chance(1, 3) {
        let n = if rng.chance(1, 30) { *rng.pick(&[8usize, 16, 33]) } else { rng.range(1, 3) };
        for _ in 0..n {
            let s = segment(rng, rich);
            if s != "." && s != ".." {
                c.subpath.push(s);
            }
        }
    }
    c
}

/// Text of a checksum qualifier; well-formed (possibly non-canonical) or malformed.
pub fn checksum_text(rng: &mut Rng, well_formed: bool) -> String {
    const ALGS: &[&str] = &["sha1", "SHA256", "md5", "Sha512", "blake2b", "a:b", "x-1", "é", "XÉ", "GOST-Э", "éB", "a=b"];
    if well_formed {
        let n = rng.range(1, 3);
        let mut algs: Vec<&str> = Vec::new();
        while algs.len() < n {
            let a = *rng.pick(ALGS);
            if !algs.iter().any(|e| e.to_lowercase() == a.to_lowercase()) {
                algs.push(a);
            }
        }
        let parts: Vec<String> = algs
            .iter()
            .map(|a| {
                let len = *rng.pick(&[0usize, 1, 2, 4, 20]);
                let mut hex = String::new();
                for _ in 0..len {
                    let digits: &[u8] =
                        if rng.chance(1, 2) { b"0123456789abcdef" } else { b"0123456789ABCDEF" };
                    hex.push(*rng.pick(digits) as char);
                    hex.push(*rng.pick(digits) as char);
                }
                format!("{a}:{hex}")
            })
            .collect();
        parts.join(",")
    } else {
        (*rng.pick(&[
            "sha1",
            "sha1:0",
            "sha1:0g",
            "sha1:00,SHA1:11",
            "sha1:00,",
            ",",
            "sha1:00,md5",
            "md5:abc",
            "sha1:zz",
            "sha1:+f",
            "sha1:-1",
            "sha1: f",
            "sha1:f ",
            "sha1:0x",
            "sha1:0X1f",
            "sha1:+f,md5:00",
            "md5:0,sha1:1",
            "a:1,b:2,c:3,d:4",
            "sha1:०१",
            "sha1:ａｂ",
            "é:0",
            "sha1:00,sha1:00",
            // Repeated algorithms that are not neighbours in the text.
            "sha1:aa,md5:cc,SHA1:bb",
            "a:00,b:11,a:22",
            "z:00,a:11,Z:22,b:33",
        ]))
        .to_owned()
    }
}

fn pct(out: &mut String, b: u8, lower: bool) {
    const UP: &[u8; 16] = b"0123456789ABCDEF";
    const LO: &[u8; 16] = b"0123456789abcdef";
    let t = if lower { LO } else { UP };
    out.push('%');
    out.push(t[(b >> 4) as usize] as char);
    out.push(t[(b & 15) as usize] as char);
}

/// Write `s`, percent-encoding the characters in `must` always and others by chance.
pub fn encode_component(s: &str, must: &[char], rng: &mut Rng, plain: bool) -> String {
    let mut out = String::new();
    let mut buf = [0u8; 4];
    let extra_mode = if plain { 0 } else { rng.below(4) };
    for c in s.chars() {
        let forced = must.contains(&c);
        let extra = match extra_mode {
            0 => false,
            1 => !c.is_ascii_alphanumeric(),
            2 => rng.chance(1, 4),
            _ => rng.chance(1, 12),
        };
        if forced || extra {
            let lower = !plain && rng.chance(1, 3);
            for b in c.encode_utf8(&mut buf).bytes() {
                pct(&mut out, b, lower);
            }
        } else {
            out.push(c);
        }
    }
    out
}

pub const MUST_PATH_SEGMENT: &[char] = &['%', '/', '@', '?', '#'];
pub const MUST_VERSION: &[char] = &['%', '@', '?', '#'];
pub const MUST_QUALIFIER_VALUE: &[char] = &['%', '&', '?', '#'];
pub const MUST_SUBPATH_SEGMENT: &[char] = &['%', '/', '#'];

/// One of the spellings the grammar permits for the components. `seed == 0` gives the plain one.
pub fn spell(c: &Components, seed: u64) -> String {
    let plain = seed == 0;
    let mut rng = Rng::new(seed);
    let mut s = String::from("pkg:");
    if !plain && rng.chance(1, 4) {
        for _ in 0..rng.range(1, 3) {
            s.push('/');
        }
    }
    s.push_str(&c.ty);
    s.push('/');
    for seg in &c.namespace {
        if !plain && rng.chance(1, 8) {
            s.push('/');
        }
        s.push_str(&encode_component(seg, MUST_PATH_SEGMENT, &mut rng, plain));
        s.push('/');
    }
    s.push_str(&encode_component(&c.name, MUST_PATH_SEGMENT, &mut rng, plain));
    if !c.version.is_empty() {
        s.push('@');
        s.push_str(&encode_component(&c.version, MUST_VERSION, &mut rng, plain));
    }
    if !c.qualifiers.is_empty() {
        let mut order: Vec<usize> = (0..c.qualifiers.len()).collect();
        if !plain {
            rng.shuffle(&mut order);
        }
        let mut sep = '?';
        for (n, i) in order.into_iter().enumerate() {
            let (k, v) = &c.qualifiers[i];
            if !plain && rng.chance(1, 10) {
                // An empty-valued qualifier with a key that cannot clash.
                s.push(sep);
                s.push_str(&format!("empty{n}="));
                sep = '&';
            }
            s.push(sep);
            sep = '&';
            if plain {
                s.push_str(k);
            } else {
                s.push_str(&ascii_case_flip(k, &mut rng, 1, 4));
            }
            s.push('=');
            s.push_str(&encode_component(v, MUST_QUALIFIER_VALUE, &mut rng, plain));
        }
    }
    if !c.subpath.is_empty() {
        s.push('#');
        if !plain && rng.chance(1, 6) {
            s.push('/');
        }
        for (i, seg) in c.subpath.iter().enumerate() {
            if i > 0 {
                s.push('/');
            }
            if !plain && rng.chance(1, 8) {
                s.push_str(*rng.pick(&["./", "../", "/"]));
            }
            if !plain && rng.chance(1, 40) {
                // Dot segments hidden behind escapes (the parser refuses these).
                s.push_str(*rng.pick(&["%2E/", "%2e%2E/", ".%2e/", "%2E%2e/"]));
            }
            s.push_str(&encode_component(seg, MUST_SUBPATH_SEGMENT, &mut rng, plain));
        }
        if !plain && rng.chance(1, 6) {
            s.push('/');
        }
    }
    s
}

/// A PURL spelling with (usually) exactly one defect.
pub fn defective_spelling(rng: &mut Rng) -> String {
    let mut c = components(rng, false);
    let seed = if rng.chance(1, 2) { 0 } else { rng.subseed() };
    match rng.below(14) {
        0 => {
            c.ty.push(*rng.pick(&['!', '_', ' ', 'é', '~', '*', ',', ':', ';', '=', '&', '$', '\'', '(', ')', '\\', '|', '^']));
            if rng.chance(1, 2) {
                c.ty.push('x');
            }
            spell(&c, seed)
        },
        1 => {
            // Percent-encoded type.
            let t = c.ty.clone();
            let mut chars = t.chars();
            let first = chars.next().unwrap_or('t');
            c.ty = format!("%{:02X}{}", first as u32 as u8, chars.as_str());
            spell(&c, seed)
        },
        2 => spell(&c, seed).replacen("pkg:", *rng.pick(&["", "pkg", "PKG:", "http:", " pkg:", "pkg::"]), 1),
        3 => {
            c.name.clear();
            spell(&c, seed)
        },
        4 => {
            let s = spell(&c, seed);
            format!("{s}{}", rng.pick(&["?novalue", "?=v", "?k%41=v", "?a=1&a=2", "?a=1&A=2", "?k!=v", "?a=1&&b=2"]))
        },
        5 => {
            c.name.push_str("PLACEHOLDER");
            spell(&c, seed).replacen("PLACEHOLDER", *rng.pick(&["%80", "%zz", "%4", "%", "%C0%80", "%ED%A0%80", "%F4%90%80%80", "%e9"]), 1)
        },
        6 => {
            c.version.push_str("PLACEHOLDER");
            spell(&c, seed).replacen("PLACEHOLDER", *rng.pick(&["%80", "%FF", "%C3"]), 1)
        },
        7 => {
            c.namespace.push("nsPLACEHOLDER".to_owned());
            spell(&c, seed).replacen("PLACEHOLDER", *rng.pick(&["%2F", "%2f", "%80", "a%2Fb"]), 1)
        },
        8 => {
            c.subpath.push("spPLACEHOLDER".to_owned());
            spell(&c, seed).replacen("PLACEHOLDER", *rng.pick(&["%2F", "%80"]), 1)
        },
        9 => {
            c.subpath.push("PLACEHOLDER".to_owned());
            spell(&c, seed).replacen("PLACEHOLDER", *rng.pick(&["%2e%2e", "%2E", ".%2e", "%2e"]), 1)
        },
        10 => {
            c.qualifiers.retain(|(k, _)| !k.eq_ignore_ascii_case("checksum"));
            c.qualifiers.push(("checksum".to_owned(), checksum_text(rng, false)));
            spell(&c, seed)
        },
        11 => format!("pkg:{}", c.ty),
        12 => format!("pkg:{}/", c.ty),
        _ => {
            c.qualifiers.push(("q".to_owned(), "PLACEHOLDER".to_owned()));
            spell(&c, seed).replacen("PLACEHOLDER", *rng.pick(&["%80", "a&b", "a?b"]), 1)
        },
    }
}

/// Character-level mutation of a string.
pub fn mutate(s: &str, rng: &mut Rng) -> String {
    const INSERTS: &[&str] = &[
        "/", "@", "?", "#", "&", "=", "%", "%2F", "%00", ":", ",", " ", ".", "..", "é", "A", "pkg:", "\"", "\\",
    ];
    let mut chars: Vec<char> = s.chars().collect();
    for _ in 0..rng.range(1, 3) {
        if chars.is_empty() {
            chars.extend(rng.pick(INSERTS).chars());
            continue;
        }
        let at = rng.below(chars.len() + 1);
        match rng.below(4) {
            0 if at < chars.len() => {
                chars.remove(at);
            },
            1 if at < chars.len() => {
                let ins: Vec<char> = rng.pick(INSERTS).chars().collect();
                chars.splice(at..at + 1, ins);
            },
            2 if at < chars.len() => {
                let other = rng.below(chars.len());
                chars.swap(at, other);
            },
            _ => {
                let ins: Vec<char> = rng.pick(INSERTS).chars().collect();
                chars.splice(at..at, ins);
            },
        }
    }
    chars.into_iter().collect()
}

/// Any input string: valid spelling, defective spelling or a mutation of either.
pub fn any_input(rng: &mut Rng, known_bias: bool) -> String {
    match rng.below(10) {
        0..=4 => {
            let c = components(rng, known_bias);
            let seed = if rng.chance(1, 3) { 0 } else { rng.subseed() };
            spell(&c, seed)
        },
        5..=7 => defective_spelling(rng),
        8 => {
            let c = components(rng, known_bias);
            let s = spell(&c, rng.subseed());
            mutate(&s, rng)
        },
        _ => (*rng.pick(&[
            "", "pkg:", "pkg:/", "pkg:a", "pkg:a/", "pkg:a/b", "pkg:a/b@", "pkg:a/b?", "pkg:a/b#",
            "pkg:a//b", "pkg://a/b", "pkg:a/b/c/d@1?x=y#z", "pkg:a/@", "pkg:a/b@@", "pkg:a/%00",
            "not a purl", "pkg:a/b?checksum=", "pkg:a/b?checksum=:", "pkg:a/b?x=%26",
            // Multi-byte characters around the four bytes of the scheme.
            "日本語", "日本語:a/b", "ab€", "ab€:a/b", "pkg\u{e9}:npm/x", "pk€:a/b", "€", "é:", "ééé", "p", "pk", "pkg",
            "pkgé", "\u{feff}pkg:a/b", "pkg:é/b", "PKG:a/b", "Pkg:a/b",
        ]))
        .to_owned(),
    }
}
