//! Types shared by the three simulators: event log, violation, statistics and the `Sim` trait.

use std::any::Any;
use std::borrow::Cow;
use std::cell::RefCell;
use std::collections::{BTreeMap, BTreeSet};
use std::fmt::{self, Write as _};
use std::panic::{self, AssertUnwindSafe};

use serde::de::DeserializeOwned;
use serde::Serialize;

use crate::rng::Fnv;

/// The recorded history of one run. Always hashed; kept as text only when recording.
pub struct Log {
    fnv: Fnv,
    lines: Option<Vec<String>>,
    buf: String,
    pub events: u64,
}

impl Log {
    pub fn new(record: bool) -> Self {
        Log { fnv: Fnv::default(), lines: record.then(Vec::new), buf: String::new(), events: 0 }
    }

    pub fn event(&mut self, args: fmt::Arguments<'_>) {
        self.buf.clear();
        // Writing into a String cannot fail.
        let _ = self.buf.write_fmt(args);
        self.fnv.write(self.buf.as_bytes());
        self.fnv.write(b"\n");
        self.events += 1;
        if let Some(lines) = &mut self.lines {
            lines.push(self.buf.clone());
        }
    }

    pub fn digest(&self) -> u64 {
        self.fnv.finish()
    }

    pub fn lines(&self) -> &[String] {
        self.lines.as_deref().unwrap_or(&[])
    }
}

#[macro_export]
macro_rules! ev {
    ($log:expr, $($arg:tt)*) => {
        $log.event(format_args!($($arg)*))
    };
}

#[derive(Clone, Debug, Serialize, serde::Deserialize, PartialEq, Eq)]
pub struct Violation {
    /// Stable identifier of the oracle clause, e.g. `C12.text_differs_from_model`.
    pub code: String,
    pub message: String,
}

impl Violation {
    pub fn new(code: &str, message: String) -> Self {
        Violation { code: code.to_owned(), message }
    }
}

#[macro_export]
macro_rules! violation {
    ($code:expr, $($arg:tt)*) => {
        $crate::core::Violation::new($code, format!($($arg)*))
    };
}

/// Counters and reach sets. Never influences an outcome.
#[derive(Clone, Debug, Default)]
pub struct Stats {
    pub counters: BTreeMap<Cow<'static, str>, u64>,
    /// Hashes of the tuples of the per-property "distinct states / interleavings" measure.
    pub reach: BTreeSet<u64>,
}

impl Stats {
    pub fn bump(&mut self, key: &'static str) {
        *self.counters.entry(Cow::Borrowed(key)).or_insert(0) += 1;
    }

    pub fn add(&mut self, key: &'static str, n: u64) {
        *self.counters.entry(Cow::Borrowed(key)).or_insert(0) += n;
    }

    pub fn bump_dyn(&mut self, key: String) {
        *self.counters.entry(Cow::Owned(key)).or_insert(0) += 1;
    }

    pub fn reach(&mut self, tuple_hash: u64) {
        self.reach.insert(tuple_hash);
    }

    pub fn merge(&mut self, other: Stats) {
        for (k, v) in other.counters {
            *self.counters.entry(k).or_insert(0) += v;
        }
        self.reach.extend(other.reach);
    }

    pub fn get(&self, key: &str) -> u64 {
        self.counters.get(key).copied().unwrap_or(0)
    }
}

pub trait Sim: Sync + Send + 'static {
    type Scenario: Serialize + DeserializeOwned + Clone + Send + 'static;

    fn id(&self) -> &'static str;

    /// The only place the PRNG is read.
    fn generate(&self, seed: u64) -> Self::Scenario;

    /// Pure function of the scenario and the code under test. `Ok(nontrivial)`.
    fn execute(
        &self,
        scenario: &Self::Scenario,
        log: &mut Log,
        stats: &mut Stats,
    ) -> Result<bool, Violation>;

    /// Strictly simpler variants of the scenario, most aggressive first.
    fn shrink_candidates(&self, scenario: &Self::Scenario) -> Vec<Self::Scenario>;

    /// How cases are generated and what makes one non-trivial (for the evidence file).
    fn rule(&self) -> &'static str;

    fn components(&self) -> serde_json::Value;

    fn assumptions(&self) -> Vec<String>;

    /// Per-property extras for the evidence file, computed from the merged statistics:
    /// (json, list of reach requirements that were not met). An unmet requirement makes
    /// the check a harness failure (exit 2), never a violation.
    fn evidence_extra(&self, stats: &Stats, tier_is_quick: bool) -> (serde_json::Value, Vec<String>);
}

thread_local! {
    static LAST_PANIC: RefCell<Option<String>> = const { RefCell::new(None) };
    static GUARD_DEPTH: std::cell::Cell<u32> = const { std::cell::Cell::new(0) };
}

/// Install a panic hook that stays silent (the simulator provokes panics on purpose when the
/// code under test is broken) and remembers the message and location for the violation text.
pub fn install_quiet_panic_hook() {
    panic::set_hook(Box::new(|info| {
        let msg = if let Some(s) = info.payload().downcast_ref::<&str>() {
            (*s).to_owned()
        } else if let Some(s) = info.payload().downcast_ref::<String>() {
            s.clone()
        } else {
            "<non-string panic payload>".to_owned()
        };
        let loc = info
            .location()
            .map(|l| format!("{}:{}", l.file(), l.line()))
            .unwrap_or_else(|| "<unknown>".to_owned());
        if GUARD_DEPTH.with(|d| d.get()) == 0 {
            // A panic of the harness itself: never silent.
            eprintln!("harness panic: {msg} at {loc}");
        }
        LAST_PANIC.with(|p| *p.borrow_mut() = Some(format!("{msg} at {loc}")));
    }));
}

fn payload_text(payload: Box<dyn Any + Send>) -> String {
    LAST_PANIC.with(|p| p.borrow_mut().take()).unwrap_or_else(|| {
        if let Some(s) = payload.downcast_ref::<&str>() {
            (*s).to_owned()
        } else if let Some(s) = payload.downcast_ref::<String>() {
            s.clone()
        } else {
            "<panic>".to_owned()
        }
    })
}

/// Run a piece of library code; a panic becomes `Err(message)`.
pub fn guarded<R>(f: impl FnOnce() -> R) -> Result<R, String> {
    GUARD_DEPTH.with(|d| d.set(d.get() + 1));
    let result = panic::catch_unwind(AssertUnwindSafe(f));
    GUARD_DEPTH.with(|d| d.set(d.get() - 1));
    result.map_err(payload_text)
}

/// Shorten a string for messages and logs (char-boundary safe).
pub fn clip(s: &str, max: usize) -> Cow<'_, str> {
    if s.len() <= max {
        Cow::Borrowed(s)
    } else {
        let mut end = max;
        while !s.is_char_boundary(end) {
            end -= 1;
        }
        Cow::Owned(format!("{}…(+{} bytes)", &s[..end], s.len() - end))
    }
}

/// Shorter variants of a string for the minimiser: chunks removed (halves, quarters, ... single
/// characters), most aggressive first, capped.
pub fn string_shrinks(s: &str) -> Vec<String> {
    let chars: Vec<char> = s.chars().collect();
    let n = chars.len();
    let mut out = Vec::new();
    let mut size = n / 2;
    while size >= 1 && out.len() < 240 {
        let mut start = 0;
        while start < n && out.len() < 240 {
            let end = (start + size).min(n);
            let candidate: String = chars[..start].iter().chain(chars[end..].iter()).collect();
            out.push(candidate);
            start += size;
        }
        size /= 2;
    }
    out
}
