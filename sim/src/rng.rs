//! The only source of randomness in the simulator: splitmix64 seeding xoshiro256**.
//! No dependency, so no other crate's state or version can leak into a run.

pub const PHI: u64 = 0x9e37_79b9_7f4a_7c15;

pub fn splitmix64(mut z: u64) -> u64 {
    z = z.wrapping_add(PHI);
    z = (z ^ (z >> 30)).wrapping_mul(0xbf58_476d_1ce4_e5b9);
    z = (z ^ (z >> 27)).wrapping_mul(0x94d0_49bb_1331_11eb);
    z ^ (z >> 31)
}

/// Seed of run `i` of the batch seeded with `batch_seed`.
pub fn run_seed(batch_seed: u64, i: u64) -> u64 {
    splitmix64(batch_seed ^ i.wrapping_mul(PHI))
}

#[derive(Clone, Debug)]
pub struct Rng {
    s: [u64; 4],
}

impl Rng {
    pub fn new(seed: u64) -> Self {
        let mut z = seed;
        let mut s = [0u64; 4];
        for slot in &mut s {
            z = z.wrapping_add(PHI);
            *slot = splitmix64(z);
        }
        if s == [0; 4] {
            s[0] = 1;
        }
        Rng { s }
    }

    pub fn next_u64(&mut self) -> u64 {
        let result = self.s[1].wrapping_mul(5).rotate_left(7).wrapping_mul(9);
        let t = self.s[1] << 17;
        self.s[2] ^= self.s[0];
        self.s[3] ^= self.s[1];
        self.s[1] ^= self.s[2];
        self.s[0] ^= self.s[3];
        self.s[2] ^= t;
        self.s[3] = self.s[3].rotate_left(45);
        result
    }

    /// Uniform in `0..n` (n > 0). The tiny modulo bias is irrelevant here.
    pub fn below(&mut self, n: usize) -> usize {
        debug_assert!(n > 0);
        ((self.next_u64() >> 11) % (n as u64)) as usize
    }

    /// Uniform in `lo..=hi`.
    pub fn range(&mut self, lo: usize, hi: usize) -> usize {
        lo + self.below(hi - lo + 1)
    }

    /// True with probability `num/den`.
    pub fn chance(&mut self, num: usize, den: usize) -> bool {
        self.below(den) < num
    }

    pub fn pick<'a, T>(&mut self, items: &'a [T]) -> &'a T {
        &items[self.below(items.len())]
    }

    pub fn shuffle<T>(&mut self, items: &mut [T]) {
        for i in (1..items.len()).rev() {
            let j = self.below(i + 1);
            items.swap(i, j);
        }
    }

    pub fn permutation(&mut self, n: usize) -> Vec<usize> {
        let mut p: Vec<usize> = (0..n).collect();
        self.shuffle(&mut p);
        p
    }

    /// A fresh sub-seed (never 0, so that 0 can mean "plain" in scenarios).
    pub fn subseed(&mut self) -> u64 {
        self.next_u64() | 1
    }
}

/// FNV-1a, used for event-log digests.
#[derive(Clone, Copy, Debug)]
pub struct Fnv(pub u64);

impl Default for Fnv {
    fn default() -> Self {
        Fnv(0xcbf2_9ce4_8422_2325)
    }
}

impl Fnv {
    pub fn write(&mut self, bytes: &[u8]) {
        for b in bytes {
            self.0 = (self.0 ^ u64::from(*b)).wrapping_mul(0x0000_0100_0000_01b3);
        }
    }

    pub fn write_u64(&mut self, v: u64) {
        self.write(&v.to_le_bytes());
    }

    pub fn finish(&self) -> u64 {
        splitmix64(self.0)
    }
}
