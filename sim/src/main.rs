//! purl-sim: deterministic simulation with fault injection for phylum-dev/purl (C12, C14, C16).
//!
//! purl-sim run <ID> --tier quick|thorough --seed N --runs N [--workers N] [--selfcheck N]
//!              --evidence FILE --replays DIR --known FILE --build TAG [--carry FILE]...
//! purl-sim replay <ID> <FILE>
//! purl-sim digest <ID> --seed N --runs N --workers N
//! purl-sim show <ID> --seed N --run I
//! purl-sim miri C12 --seed N --scenarios K [--only I]     (run under `cargo +nightly miri run`, no hook)

mod c12;
mod c14;
mod c16;
mod core;
mod gen;
mod io_stub;
mod rng;
mod runner;

use std::path::PathBuf;

use crate::core::Sim;
use crate::runner::{BatchConfig, CheckOptions};

#[cfg(feature = "full")]
pub type SmallStr = purl::SmallString;
#[cfg(not(feature = "full"))]
pub type SmallStr = String;

struct Args {
    rest: Vec<String>,
}

impl Args {
    fn value(&self, name: &str) -> Option<String> {
        self.rest.iter().position(|a| a == name).and_then(|i| self.rest.get(i + 1)).cloned()
    }

    fn values(&self, name: &str) -> Vec<String> {
        self.rest
            .iter()
            .enumerate()
            .filter(|(_, a)| *a == name)
            .filter_map(|(i, _)| self.rest.get(i + 1).cloned())
            .collect()
    }

    fn num(&self, name: &str, default: u64) -> Result<u64, String> {
        match self.value(name) {
            None => Ok(default),
            Some(v) => v.parse::<u64>().map_err(|_| format!("{name} needs an unsigned integer, got {v:?}")),
        }
    }
}

fn dispatch<S: Sim>(sim: S, cmd: &str, args: &Args) -> Result<i32, String> {
    let workers = args.num("--workers", 16)? as usize;
    let seed = args.num("--seed", 20_261_004)?;
    match cmd {
        "run" => {
            let opt = CheckOptions {
                tier: args.value("--tier").unwrap_or_else(|| "quick".to_owned()),
                batch_seed: seed,
                runs: args.num("--runs", 1000)?,
                workers,
                selfcheck_runs: args.num("--selfcheck", 0)?,
                evidence_path: PathBuf::from(args.value("--evidence").ok_or("--evidence missing")?),
                replay_dir: PathBuf::from(args.value("--replays").ok_or("--replays missing")?),
                known_findings: PathBuf::from(args.value("--known").ok_or("--known missing")?),
                build_tag: args.value("--build").unwrap_or_else(|| "default".to_owned()),
                carry: args.values("--carry").into_iter().map(PathBuf::from).collect(),
                extra: args.values("--extra").into_iter().map(PathBuf::from).collect(),
            };
            Ok(runner::run_check(&sim, &opt))
        },
        "replay" => {
            let path = args.rest.get(0).ok_or("replay needs a file")?;
            Ok(runner::replay(&sim, &PathBuf::from(path)))
        },
        "digest" => {
            let result = runner::run_batch(&sim, &BatchConfig {
                batch_seed: seed,
                runs: args.num("--runs", 1000)?,
                workers,
                keep_run_digests: false,
                max_violations: usize::MAX,
            });
            println!("{:016x}", result.digest);
            Ok(0)
        },
        "show" => {
            let i = args.num("--run", 0)?;
            let scenario = sim.generate(rng::run_seed(seed, i));
            println!("{}", serde_json::to_string_pretty(&scenario).unwrap());
            let (lines, digest, result) = runner::execute_recorded(&sim, &scenario);
            for l in lines {
                println!("  | {l}");
            }
            println!("digest {digest:016x} result {result:?}");
            Ok(0)
        },
        "miri" => {
            // The stub-free lane of C12: executed under Miri without the hook, so the hash keys are
            // the real RandomState ones (a function of Miri's seed). Every line is self-contained
            // because the outputs of parallel Miri seeds interleave.
            let wanted = args.num("--scenarios", 12)?;
            let only = args.value("--only").map(|v| v.parse::<u64>().unwrap_or(0));
            let mut picked = 0;
            let mut failed = 0;
            let mut i = 0;
            while picked < wanted && i < 10_000 {
                let scenario = sim.generate(rng::run_seed(seed, i));
                let mut json = serde_json::to_value(&scenario).unwrap();
                let ops = json["ops"].as_array().map(|a| a.len()).unwrap_or(3);
                i += 1;
                if ops < 3 || ops > 10 {
                    continue;
                }
                // Without the hook the hash plans are only labels (every map instance takes real
                // RandomState keys, which the Miri seed decides), so one pass over the operations is
                // enough; interpretation is slow.
                if let Some(plans) = json["hash_plans"].as_array_mut() {
                    plans.truncate(1);
                }
                let scenario: S::Scenario = serde_json::from_value(json.clone()).map_err(|e| e.to_string())?;
                picked += 1;
                if only.is_some_and(|o| o != i - 1) {
                    continue;
                }
                let (lines, digest, result) = runner::execute_recorded(&sim, &scenario);
                match result {
                    Ok(_) => println!("MIRI-OK scenario={} events={} digest={digest:016x}", i - 1, lines.len()),
                    Err(v) => {
                        failed += 1;
                        println!("MIRI-VIOLATION scenario={} code={} message={}", i - 1, v.code, v.message);
                        println!("MIRI-SCENARIO scenario={} json={}", i - 1, json);
                    },
                }
            }
            Ok(if failed > 0 { 1 } else { 0 })
        },
        other => Err(format!("unknown command {other:?}")),
    }
}

fn main() {
    core::install_quiet_panic_hook();
    let argv: Vec<String> = std::env::args().skip(1).collect();
    if argv.len() < 2 {
        eprintln!("usage: purl-sim run|replay|digest|show <C12|C14|C16> ...");
        std::process::exit(2);
    }
    let cmd = argv[0].clone();
    let id = argv[1].clone();
    let args = Args { rest: argv[2..].to_vec() };
    let code = match id.as_str() {
        "C12" => dispatch(c12::C12, &cmd, &args),
        "C14" => dispatch(c14::C14, &cmd, &args),
        "C16" => dispatch(c16::C16, &cmd, &args),
        other => Err(format!("unknown property {other:?} (claimed: C12, C14, C16)")),
    };
    match code {
        Ok(c) => std::process::exit(c),
        Err(e) => {
            eprintln!("harness error: {e}");
            std::process::exit(2);
        },
    }
}
