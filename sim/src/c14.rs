//! C14 — user-supplied package types: call protocol and post-hook validation.
//!
//! The simulator plays the user side of the `FromStr` + `PurlShape` interface: `SimShape` takes
//! its behaviour from a thread-local script (the injected faults) and records every callback.

use std::borrow::Cow;
use std::cell::RefCell;
use std::collections::BTreeMap;
use std::str::FromStr;

use purl::{GenericPurl, GenericPurlBuilder, ParseError, PurlField, PurlParts, PurlShape};
use serde::{Deserialize, Serialize};
use serde_json::json;

use crate::core::{guarded, string_shrinks, Log, Sim, Stats, Violation};
use crate::gen;
use crate::rng::{Fnv, Rng};
use crate::{ev, violation};

#[derive(Clone, Debug, PartialEq, Eq, Serialize, Deserialize)]
pub enum ConvPlan {
    Accept,
    AcceptAs(String),
    Fail,
}

#[derive(Clone, Debug, PartialEq, Eq, Serialize, Deserialize)]
pub enum HookAction {
    ClearName,
    SetName(String),
    SetNamespace(String),
    SetVersion(String),
    SetSubpath(String),
    InsertQualifier(String, String),
    InsertEmptyQualifier(String),
    InsertInvalidKey(String, String),
    BlankExistingQualifier(usize),
    /// Blank every qualifier value (through `iter_mut`).
    BlankAllQualifiers,
    /// Blank the i-th and the (i+1)-th qualifier (neighbours in key order).
    BlankAdjacentPair(usize),
    RemoveQualifier(usize),
    /// Remove the i-th qualifier through another removal path: 0 `OccupiedEntry::remove`,
    /// 1 `OccupiedEntry::remove_entry`, 2 `retain` returning false for it, 3 `retain_mut` likewise.
    RemoveVia(u8, usize),
    ClearQualifiers,
    InsertChecksumWellFormed(String),
    InsertChecksumMalformed(String),
    RetypeSelf(String),
    /// `qualifier[target] := value` through one particular write path of `Qualifiers`.
    Write { path: WritePath, target: Target, value: String },
}

/// The ways a hook can write a qualifier value.
#[derive(Clone, Copy, Debug, PartialEq, Eq, Serialize, Deserialize)]
pub enum WritePath {
    IndexMut,
    GetMut,
    EntryOrInsert,
    EntryAndModify,
    EntryInsert,
    IterMut,
    RetainMut,
    TryFromIter,
}

pub const WRITE_PATHS: &[WritePath] = &[
    WritePath::IndexMut,
    WritePath::GetMut,
    WritePath::EntryOrInsert,
    WritePath::EntryAndModify,
    WritePath::EntryInsert,
    WritePath::IterMut,
    WritePath::RetainMut,
    WritePath::TryFromIter,
];

impl WritePath {
    fn kind(self) -> &'static str {
        match self {
            WritePath::IndexMut => "hook.write_via.index_mut",
            WritePath::GetMut => "hook.write_via.get_mut",
            WritePath::EntryOrInsert => "hook.write_via.entry_or_insert",
            WritePath::EntryAndModify => "hook.write_via.entry_and_modify",
            WritePath::EntryInsert => "hook.write_via.entry_insert",
            WritePath::IterMut => "hook.write_via.iter_mut",
            WritePath::RetainMut => "hook.write_via.retain_mut",
            WritePath::TryFromIter => "hook.write_via.try_from_iter",
        }
    }
}

#[derive(Clone, Debug, PartialEq, Eq, Serialize, Deserialize)]
pub enum Target {
    /// The i-th existing qualifier (modulo); nothing happens if there is none.
    Existing(usize),
    /// This (valid) key, whether it exists or not.
    Key(String),
    /// The `checksum` qualifier.
    Checksum,
}

impl HookAction {
    fn kind(&self) -> &'static str {
        match self {
            HookAction::ClearName => "hook.clear_name",
            HookAction::SetName(_) => "hook.set_name",
            HookAction::SetNamespace(_) => "hook.set_namespace",
            HookAction::SetVersion(_) => "hook.set_version",
            HookAction::SetSubpath(_) => "hook.set_subpath",
            HookAction::InsertQualifier(..) => "hook.insert_qualifier",
            HookAction::InsertEmptyQualifier(_) => "hook.insert_empty_qualifier",
            HookAction::InsertInvalidKey(..) => "hook.insert_invalid_key",
            HookAction::BlankExistingQualifier(_) => "hook.blank_existing_qualifier",
            HookAction::BlankAllQualifiers => "hook.blank_all_qualifiers",
            HookAction::BlankAdjacentPair(_) => "hook.blank_adjacent_pair",
            HookAction::RemoveQualifier(_) => "hook.remove_qualifier",
            HookAction::RemoveVia(..) => "hook.remove_via_other_path",
            HookAction::ClearQualifiers => "hook.clear_qualifiers",
            HookAction::InsertChecksumWellFormed(_) => "hook.insert_checksum_well_formed",
            HookAction::InsertChecksumMalformed(_) => "hook.insert_checksum_malformed",
            HookAction::RetypeSelf(_) => "hook.retype_self",
            HookAction::Write { path, .. } => path.kind(),
        }
    }
}

pub const ACTION_KINDS: &[&str] = &[
    "hook.clear_name",
    "hook.set_name",
    "hook.set_namespace",
    "hook.set_version",
    "hook.set_subpath",
    "hook.insert_qualifier",
    "hook.insert_empty_qualifier",
    "hook.insert_invalid_key",
    "hook.blank_existing_qualifier",
    "hook.blank_all_qualifiers",
    "hook.blank_adjacent_pair",
    "hook.remove_qualifier",
    "hook.remove_via_other_path",
    "hook.clear_qualifiers",
    "hook.insert_checksum_well_formed",
    "hook.insert_checksum_malformed",
    "hook.retype_self",
    "hook.write_via.index_mut",
    "hook.write_via.get_mut",
    "hook.write_via.entry_or_insert",
    "hook.write_via.entry_and_modify",
    "hook.write_via.entry_insert",
    "hook.write_via.iter_mut",
    "hook.write_via.retain_mut",
    "hook.write_via.try_from_iter",
];

#[derive(Clone, Debug, PartialEq, Eq, Serialize, Deserialize)]
pub struct Script {
    pub conv: ConvPlan,
    pub hook: Vec<HookAction>,
    pub hook_fails: bool,
}

#[derive(Clone, Debug, PartialEq, Eq, Serialize, Deserialize)]
pub enum BuilderCall {
    WithNamespace(String),
    WithoutNamespace,
    WithName(String),
    WithVersion(String),
    WithoutVersion,
    WithSubpath(String),
    WithoutSubpath,
    WithQualifier(String, String),
    WithoutQualifier(String),
    WithoutQualifiers,
    WithPackageType(String),
    /// `with_typed_qualifier(Some(RepositoryUrl / DownloadUrl / VcsUrl / FileName))`, by index.
    WithTypedQualifier(u8, String),
    /// `with_typed_qualifier(None::<...>)`, by index.
    WithoutTypedQualifier(u8),
    /// `try_with_typed_qualifier(Some(Checksum))` filled with `insert_raw(alg, hex)` for each pair.
    TryWithChecksum(Vec<(String, String)>),
    /// `try_with_typed_qualifier(None::<Checksum>)`.
    WithoutChecksum,
    /// Direct edit of the public field `parts.name` / `namespace` / `version` / `subpath`, by index.
    DirectEdit(u8, String),
    /// Direct edit of the public field `package_type`.
    DirectRetype(String),
}

#[derive(Clone, Debug, PartialEq, Eq, Serialize, Deserialize)]
pub enum Workload {
    /// `GenericPurl::<SimShape>::from_str(input)`.
    Parse { input: String },
    /// `GenericPurlBuilder::new(SimShape{ty}, name)`, the calls, `build()`. With `clone_first` a clone
    /// of the builder is built (and judged) first, then the original: one hook call per `build()`.
    Build {
        ty: String,
        name: String,
        calls: Vec<BuilderCall>,
        #[serde(default)]
        clone_first: bool,
    },
    /// `GenericPurl::new(SimShape{ty}, name)`.
    New { ty: String, name: String },
    /// Parse `input` under the all-succeed script, then `into_builder()`, the calls (usually none),
    /// and `build()` under the script.
    Rebuild {
        input: String,
        #[serde(default)]
        calls: Vec<BuilderCall>,
    },
    /// `GenericPurl::<SimShape>::deserialize` of a string value holding `input` (serde entry point).
    Deserialize { input: String },
}

#[derive(Clone, Debug, PartialEq, Eq, Serialize, Deserialize)]
pub struct Scenario {
    pub workload: Workload,
    pub scripts: Vec<Script>,
}

// ---------------------------------------------------------------------------------------------
// The user side.

#[derive(Clone, Debug, PartialEq, Eq)]
struct PartsSnap {
    namespace: String,
    name: String,
    version: String,
    subpath: String,
    qualifiers: Vec<(String, String)>,
}

fn snap(parts: &PurlParts) -> PartsSnap {
    PartsSnap {
        namespace: parts.namespace.as_str().to_owned(),
        name: parts.name.as_str().to_owned(),
        version: parts.version.as_str().to_owned(),
        subpath: parts.subpath.as_str().to_owned(),
        qualifiers: parts.qualifiers.iter().map(|(k, v)| (k.as_str().to_owned(), v.to_owned())).collect(),
    }
}

#[derive(Clone, Debug)]
enum Event {
    Conv { arg: String, token: Option<u64> },
    Finish { before: PartsSnap, after: PartsSnap, shape_after: String, token: Option<u64> },
}

struct Tls {
    script: Script,
    events: Vec<Event>,
    type_queries: u64,
    next_token: u64,
}

thread_local! {
    static TLS: RefCell<Tls> = RefCell::new(Tls {
        script: Script { conv: ConvPlan::Accept, hook: Vec::new(), hook_fails: false },
        events: Vec::new(),
        type_queries: 0,
        next_token: 1,
    });
}

fn install(script: &Script, token_base: u64) {
    TLS.with(|t| {
        let mut t = t.borrow_mut();
        t.script = script.clone();
        t.events.clear();
        t.type_queries = 0;
        t.next_token = token_base;
    });
}

fn take_events() -> (Vec<Event>, u64) {
    TLS.with(|t| {
        let mut t = t.borrow_mut();
        (std::mem::take(&mut t.events), t.type_queries)
    })
}

#[derive(Clone, Debug, PartialEq, Eq)]
pub struct SimShape {
    ty: String,
}

#[derive(Debug)]
pub struct ConvErr(u64);

#[derive(Debug)]
pub enum SimError {
    Conv(u64),
    Hook(u64),
    Parse(ParseError),
}

impl std::fmt::Display for SimError {
    fn fmt(&self, f: &mut std::fmt::Formatter<'_>) -> std::fmt::Result {
        match self {
            SimError::Conv(t) => write!(f, "Conv#{t}"),
            SimError::Hook(t) => write!(f, "Hook#{t}"),
            SimError::Parse(e) => write!(f, "Parse({e})"),
        }
    }
}

/// The serde entry point reports errors as text; map the text back (tokens are unique per run).
fn error_from_text(text: &str) -> SimError {
    let token_after = |tag: &str| -> Option<u64> {
        let at = text.find(tag)? + tag.len();
        let digits: String = text[at..].chars().take_while(char::is_ascii_digit).collect();
        digits.parse().ok()
    };
    if let Some(t) = token_after("Conv#") {
        SimError::Conv(t)
    } else if let Some(t) = token_after("Hook#") {
        SimError::Hook(t)
    } else {
        // Some generic error; which one is not C14's business.
        SimError::Parse(ParseError::InvalidEscape)
    }
}

impl From<ParseError> for SimError {
    fn from(e: ParseError) -> Self {
        SimError::Parse(e)
    }
}

impl From<ConvErr> for SimError {
    fn from(e: ConvErr) -> Self {
        SimError::Conv(e.0)
    }
}

impl FromStr for SimShape {
    type Err = ConvErr;

    fn from_str(s: &str) -> Result<Self, ConvErr> {
        TLS.with(|t| {
            let mut t = t.borrow_mut();
            match t.script.conv.clone() {
                ConvPlan::Accept => {
                    t.events.push(Event::Conv { arg: s.to_owned(), token: None });
                    Ok(SimShape { ty: s.to_ascii_lowercase() })
                },
                ConvPlan::AcceptAs(ty) => {
                    t.events.push(Event::Conv { arg: s.to_owned(), token: None });
                    Ok(SimShape { ty })
                },
                ConvPlan::Fail => {
                    let token = t.next_token;
                    t.next_token += 1;
                    t.events.push(Event::Conv { arg: s.to_owned(), token: Some(token) });
                    Err(ConvErr(token))
                },
            }
        })
    }
}

impl PurlShape for SimShape {
    type Error = SimError;

    fn package_type(&self) -> Cow<'_, str> {
        TLS.with(|t| t.borrow_mut().type_queries += 1);
        Cow::Borrowed(&self.ty)
    }

    fn finish(&mut self, parts: &mut PurlParts) -> Result<(), SimError> {
        let (actions, fails) = TLS.with(|t| {
            let t = t.borrow();
            (t.script.hook.clone(), t.script.hook_fails)
        });
        let before = snap(parts);
        for action in &actions {
            match action {
                HookAction::ClearName => parts.name = Default::default(),
                HookAction::SetName(s) => parts.name = s.as_str().into(),
                HookAction::SetNamespace(s) => parts.namespace = s.as_str().into(),
                HookAction::SetVersion(s) => parts.version = s.as_str().into(),
                HookAction::SetSubpath(s) => parts.subpath = s.as_str().into(),
                HookAction::InsertQualifier(k, v) => {
                    let _ = parts.qualifiers.insert(k.as_str(), v.as_str());
                },
                HookAction::InsertEmptyQualifier(k) => {
                    let _ = parts.qualifiers.insert(k.as_str(), "");
                },
                HookAction::InsertInvalidKey(k, v) => {
                    let _ = parts.qualifiers.insert(k.as_str(), v.as_str());
                },
                HookAction::BlankExistingQualifier(i) => {
                    let n = parts.qualifiers.len();
                    if n > 0 {
                        if let Some((_, v)) = parts.qualifiers.iter_mut().nth(i % n) {
                            *v = Default::default();
                        }
                    }
                },
                HookAction::BlankAllQualifiers => {
                    for (_, v) in parts.qualifiers.iter_mut() {
                        *v = Default::default();
                    }
                },
                HookAction::BlankAdjacentPair(i) => {
                    let n = parts.qualifiers.len();
                    if n > 0 {
                        let first = i % n;
                        for (at, (_, v)) in parts.qualifiers.iter_mut().enumerate() {
                            if at == first || at == first + 1 {
                                *v = Default::default();
                            }
                        }
                    }
                },
                HookAction::RemoveQualifier(i) => {
                    let n = parts.qualifiers.len();
                    if n > 0 {
                        let key = parts.qualifiers.iter().nth(i % n).map(|(k, _)| k.as_str().to_owned());
                        if let Some(key) = key {
                            parts.qualifiers.remove(key);
                        }
                    }
                },
                HookAction::RemoveVia(path, i) => {
                    let n = parts.qualifiers.len();
                    if n > 0 {
                        let key = parts.qualifiers.iter().nth(i % n).map(|(k, _)| k.as_str().to_owned()).unwrap_or_default();
                        match path % 4 {
                            0 => {
                                if let Ok(purl::qualifiers::Entry::Occupied(o)) = parts.qualifiers.entry(key.as_str()) {
                                    o.remove();
                                }
                            },
                            1 => {
                                if let Ok(purl::qualifiers::Entry::Occupied(o)) = parts.qualifiers.entry(key.as_str()) {
                                    o.remove_entry();
                                }
                            },
                            2 => parts.qualifiers.retain(|k, _| *k != key),
                            _ => parts.qualifiers.retain_mut(|k, _| *k != key),
                        }
                    }
                },
                HookAction::ClearQualifiers => parts.qualifiers.clear(),
                HookAction::InsertChecksumWellFormed(t) | HookAction::InsertChecksumMalformed(t) => {
                    let _ = parts.qualifiers.insert("checksum", t.as_str());
                },
                HookAction::RetypeSelf(ty) => self.ty = ty.clone(),
                HookAction::Write { path, target, value } => write_qualifier(parts, *path, target, value),
            }
        }
        let after = snap(parts);
        TLS.with(|t| {
            let mut t = t.borrow_mut();
            let token = if fails {
                let token = t.next_token;
                t.next_token += 1;
                Some(token)
            } else {
                None
            };
            t.events.push(Event::Finish { before, after, shape_after: self.ty.clone(), token });
            match token {
                Some(token) => Err(SimError::Hook(token)),
                None => Ok(()),
            }
        })
    }
}

/// `qualifier[target] := value`, through the given write path (falling back to `insert` where the
/// path can only touch existing qualifiers and there is none).
fn write_qualifier(parts: &mut PurlParts, path: WritePath, target: &Target, value: &str) {
    use purl::qualifiers::Entry;
    let q = &mut parts.qualifiers;
    let key: String = match target {
        Target::Existing(i) => {
            let n = q.len();
            if n == 0 {
                return;
            }
            q.iter().nth(i % n).map(|(k, _)| k.as_str().to_owned()).unwrap_or_default()
        },
        Target::Key(k) => k.clone(),
        Target::Checksum => "checksum".to_owned(),
    };
    let exists = q.contains_key(key.as_str());
    match path {
        WritePath::IndexMut if exists => q[key.as_str()] = value.into(),
        WritePath::GetMut if exists => {
            if let Some(v) = q.get_mut(key.as_str()) {
                *v = value.into();
            }
        },
        WritePath::EntryOrInsert => {
            if let Ok(e) = q.entry(key.as_str()) {
                *e.or_insert("") = value.into();
            }
        },
        WritePath::EntryAndModify => {
            if let Ok(e) = q.entry(key.as_str()) {
                e.and_modify(|v| *v = value.into()).or_insert_with(|| value);
            }
        },
        WritePath::EntryInsert => match q.entry(key.as_str()) {
            Ok(Entry::Occupied(mut o)) => {
                o.insert(value);
            },
            Ok(Entry::Vacant(v)) => {
                v.insert(value);
            },
            Err(_) => {},
        },
        WritePath::IterMut if exists => {
            for (k, v) in q.iter_mut() {
                if *k == key {
                    *v = value.into();
                }
            }
        },
        WritePath::RetainMut if exists => q.retain_mut(|k, v| {
            if *k == key {
                *v = value.into();
            }
            true
        }),
        WritePath::TryFromIter => {
            // Rebuild the whole collection from pairs, with the one value replaced or added.
            let mut pairs: Vec<(String, String)> =
                q.iter().filter(|(k, _)| **k != key).map(|(k, v)| (k.as_str().to_owned(), v.to_owned())).collect();
            pairs.push((key.clone(), value.to_owned()));
            if let Ok(rebuilt) = purl::Qualifiers::try_from_iter(pairs) {
                *q = rebuilt;
            }
        },
        _ => {
            let _ = q.insert(key.as_str(), value);
        },
    }
}

// ---------------------------------------------------------------------------------------------
// The oracle.

fn lower(s: &str) -> String {
    s.chars().flat_map(char::to_lowercase).collect()
}

enum ChecksumError {
    /// An entry without ':', or with odd / non-hex digits.
    Malformed,
    /// Well-formed entries, but an algorithm occurs twice (in any letter case). C14 says "canonicalised
    /// or refused"; which of the two happens to a repeated algorithm is C05's business.
    Duplicate,
}

/// Independent checksum canonicaliser.
fn canonical_checksum(text: &str) -> Result<String, ChecksumError> {
    let mut model: BTreeMap<String, String> = BTreeMap::new();
    let mut duplicate = false;
    for entry in text.split(',') {
        let at = entry.rfind(':').ok_or(ChecksumError::Malformed)?;
        let (alg, hex) = (&entry[..at], &entry[at + 1..]);
        if hex.len() % 2 != 0 || !hex.bytes().all(|b| b.is_ascii_hexdigit()) {
            return Err(ChecksumError::Malformed);
        }
        if model.insert(lower(alg), hex.to_ascii_lowercase()).is_some() {
            duplicate = true;
        }
    }
    if duplicate {
        return Err(ChecksumError::Duplicate);
    }
    let parts: Vec<String> = model.iter().map(|(a, h)| format!("{a}:{h}")).collect();
    Ok(parts.join(","))
}

fn is_type_char(c: char) -> bool {
    c.is_ascii_alphanumeric() || c == '.' || c == '+' || c == '-'
}

enum Expect {
    /// The name is empty: refused.
    MissingName,
    /// The checksum is malformed: refused.
    InvalidQualifier,
    /// Both defects at once: any error, no PURL.
    AnyErr,
    /// An algorithm is repeated: refused, or a PURL whose checksum is in canonical form.
    RefusedOrCanonical,
    Purl { snap: PartsSnap, ty: String },
}

fn expectation(after: &PartsSnap, shape_after: &str) -> Expect {
    let checksum = after.qualifiers.iter().find(|(k, v)| k == "checksum" && !v.is_empty()).map(|(_, v)| v.as_str());
    let checksum = checksum.map(canonical_checksum);
    match (after.name.is_empty(), &checksum) {
        (true, Some(Err(_))) => Expect::AnyErr,
        (true, _) => Expect::MissingName,
        (false, Some(Err(ChecksumError::Malformed))) => Expect::InvalidQualifier,
        (false, Some(Err(ChecksumError::Duplicate))) => Expect::RefusedOrCanonical,
        (false, _) => {
            let mut snap = after.clone();
            snap.qualifiers.retain(|(_, v)| !v.is_empty());
            if let Some(Ok(canon)) = checksum {
                for (k, v) in &mut snap.qualifiers {
                    if k == "checksum" {
                        *v = canon.clone();
                    }
                }
            }
            Expect::Purl { snap, ty: shape_after.to_owned() }
        },
    }
}

fn describe(result: &Result<GenericPurl<SimShape>, SimError>) -> String {
    match result {
        Ok(p) => format!("Ok({p})"),
        Err(SimError::Conv(t)) => format!("Err(Conv#{t})"),
        Err(SimError::Hook(t)) => format!("Err(Hook#{t})"),
        Err(SimError::Parse(e)) => format!("Err(Parse({e:?}))"),
    }
}

/// Independent renderer of the canonical string, written from the documented shape (property C03):
/// `pkg:` type `/` [namespace `/`] name [`@` version] [`?` k=v joined by `&`] [`#` subpath]; inside a
/// component every control character, DEL, space, non-ASCII byte, `"`, `<`, `>`, `%`, `@`, `?`, `#` -
/// and additionally `` ` ``, `{`, `}` in namespace, name and version, `/` in the name, `+` and `&` in
/// qualifier keys and values, `` ` `` in the subpath - is written as %XX with upper-case hex digits.
fn render(ty: &str, snap: &PartsSnap) -> String {
    fn put(out: &mut String, text: &str, extra: &[u8]) {
        for b in text.bytes() {
            let escape = b < 0x20 || b >= 0x7f || b" \"<>%@?#".contains(&b) || extra.contains(&b);
            if escape {
                out.push('%');
                out.push(char::from(b"0123456789ABCDEF"[usize::from(b >> 4)]));
                out.push(char::from(b"0123456789ABCDEF"[usize::from(b & 15)]));
            } else {
                out.push(char::from(b));
            }
        }
    }
    let mut out = format!("pkg:{ty}/");
    if !snap.namespace.is_empty() {
        put(&mut out, &snap.namespace, b"`{}");
        out.push('/');
    }
    put(&mut out, &snap.name, b"`{}/");
    if !snap.version.is_empty() {
        out.push('@');
        put(&mut out, &snap.version, b"`{}");
    }
    for (i, (k, v)) in snap.qualifiers.iter().enumerate() {
        out.push(if i == 0 { '?' } else { '&' });
        put(&mut out, k, b"+&");
        out.push('=');
        put(&mut out, v, b"+&");
    }
    if !snap.subpath.is_empty() {
        out.push('#');
        put(&mut out, &snap.subpath, b"`");
    }
    out
}

fn check_purl(purl: &GenericPurl<SimShape>, snap: &PartsSnap, ty: &str, ctx: &str) -> Result<(), Violation> {
    let opt = |s: &str| if s.is_empty() { None } else { Some(s.to_owned()) };
    let got = PartsSnap {
        namespace: purl.namespace().unwrap_or("").to_owned(),
        name: purl.name().to_owned(),
        version: purl.version().unwrap_or("").to_owned(),
        subpath: purl.subpath().unwrap_or("").to_owned(),
        qualifiers: purl.qualifiers().iter().map(|(k, v)| (k.as_str().to_owned(), v.to_owned())).collect(),
    };
    if got != *snap
        || purl.namespace().map(str::to_owned) != opt(&snap.namespace)
        || purl.version().map(str::to_owned) != opt(&snap.version)
        || purl.subpath().map(str::to_owned) != opt(&snap.subpath)
    {
        return Err(violation!(
            "C14.purl_does_not_report_what_the_hook_left",
            "{ctx}: the hook left {:?} (after the generic checks: empty qualifiers removed, checksum canonical), the PURL reports {:?}",
            snap,
            got
        ));
    }
    if purl.package_type().ty != ty {
        return Err(violation!(
            "C14.shape_not_as_hook_left_it",
            "{ctx}: the shape reports type {:?}, the hook left {ty:?}",
            purl.package_type().ty
        ));
    }
    // "...and prints": differential against the library's own formatter on the type-agnostic shape.
    let printed = guarded(|| purl.to_string()).map_err(|p| violation!("C14.panic_in_display", "{ctx}: to_string() panicked: {p}"))?;
    // "...and prints": every character the hook left is in the printed form, in the documented shape.
    let rendered = render(ty, snap);
    if printed != rendered {
        return Err(violation!(
            "C14.printed_form_differs",
            "{ctx}: prints {printed:?}; the parts the hook left ({:?}), rendered in the documented shape, give {rendered:?}",
            snap
        ));
    }
    let mut reference = GenericPurlBuilder::new(ty.to_owned(), snap.name.as_str())
        .with_namespace(snap.namespace.as_str())
        .with_version(snap.version.as_str())
        .with_subpath(snap.subpath.as_str());
    for (k, v) in &snap.qualifiers {
        reference = match reference.with_qualifier(k.as_str(), v.as_str()) {
            Ok(b) => b,
            Err(_) => return Ok(()),
        };
    }
    if let Ok(Ok(reference)) = guarded(move || reference.build()) {
        let expected = reference.to_string();
        if printed != expected {
            return Err(violation!(
                "C14.printed_form_differs",
                "{ctx}: prints {printed:?}, a type-agnostic PURL with the same type and parts prints {expected:?}"
            ));
        }
    }
    Ok(())
}

#[derive(Clone, Copy, PartialEq, Eq)]
enum Kind {
    Parse,
    Build,
}

fn judge(
    kind: Kind,
    input: Option<&str>,
    reference_accepts: Option<bool>,
    events: &[Event],
    result: &Result<GenericPurl<SimShape>, SimError>,
    ctx: &str,
) -> Result<(), Violation> {
    let convs: Vec<(&String, &Option<u64>)> =
        events.iter().filter_map(|e| if let Event::Conv { arg, token } = e { Some((arg, token)) } else { None }).collect();
    let finishes: Vec<&Event> = events.iter().filter(|e| matches!(e, Event::Finish { .. })).collect();

    match kind {
        Kind::Parse => {
            if convs.len() > 1 {
                return Err(violation!("C14.conversion_called_more_than_once", "{ctx}: the conversion was invoked {} times in one parse", convs.len()));
            }
            if finishes.len() > 1 {
                return Err(violation!("C14.finish_called_more_than_once", "{ctx}: the finishing hook was invoked {} times in one parse", finishes.len()));
            }
            if let Some(pos) = events.iter().position(|e| matches!(e, Event::Finish { .. })) {
                let ok_before = events[..pos].iter().any(|e| matches!(e, Event::Conv { token: None, .. }));
                if !ok_before {
                    return Err(violation!("C14.finish_before_successful_conversion", "{ctx}: the finishing hook ran without a successful conversion before it"));
                }
            }
            if let (Some((arg, _)), Some(input)) = (convs.first(), input) {
                let rest = input.strip_prefix("pkg:").unwrap_or(input).trim_start_matches('/');
                let valid = !arg.is_empty() && arg.chars().all(is_type_char);
                let as_written = rest.starts_with(arg.as_str())
                    && !rest[arg.len()..].chars().next().is_some_and(is_type_char);
                if !valid {
                    return Err(violation!("C14.conversion_got_invalid_type", "{ctx}: the conversion was invoked with {arg:?}, which is not a syntactically valid type"));
                }
                if !as_written {
                    return Err(violation!("C14.conversion_arg_not_as_written", "{ctx}: the conversion was invoked with {arg:?}, which is not the type substring as written in {input:?}"));
                }
            }
            if reference_accepts == Some(true) {
                if convs.is_empty() {
                    return Err(violation!("C14.conversion_not_called", "{ctx}: the type-agnostic parser accepts the input but the conversion was never invoked"));
                }
                if convs[0].1.is_none() && finishes.is_empty() {
                    return Err(violation!("C14.finish_not_called", "{ctx}: the type-agnostic parser accepts the input and the conversion succeeded, but the finishing hook never ran"));
                }
            }
        },
        Kind::Build => {
            if !convs.is_empty() {
                return Err(violation!("C14.conversion_called_during_build", "{ctx}: build() invoked the string-to-type conversion"));
            }
            if finishes.len() != 1 {
                return Err(violation!("C14.finish_not_exactly_once_per_build", "{ctx}: the finishing hook was invoked {} times by one build()", finishes.len()));
            }
        },
    }

    // Errors are returned unchanged, and no PURL is produced.
    if let Some((_, Some(token))) = convs.first() {
        if !finishes.is_empty() {
            return Err(violation!("C14.finish_after_failed_conversion", "{ctx}: the finishing hook ran although the conversion failed"));
        }
        return match result {
            Err(SimError::Conv(t)) if t == token => Ok(()),
            other => Err(violation!("C14.conversion_error_not_returned_unchanged", "{ctx}: the conversion failed with Conv#{token}, the result is {}", describe(other))),
        };
    }
    match finishes.first() {
        None => match result {
            Err(SimError::Parse(_)) => Ok(()),
            other => Err(violation!("C14.result_without_finish", "{ctx}: the finishing hook never ran, yet the result is {}", describe(other))),
        },
        Some(Event::Finish { token: Some(token), .. }) => match result {
            Err(SimError::Hook(t)) if t == token => Ok(()),
            other => Err(violation!("C14.hook_error_not_returned_unchanged", "{ctx}: the hook failed with Hook#{token}, the result is {}", describe(other))),
        },
        Some(Event::Finish { after, shape_after, .. }) => match expectation(after, shape_after) {
            Expect::AnyErr => match result {
                Err(SimError::Parse(_)) => Ok(()),
                other => Err(violation!("C14.invalid_parts_accepted", "{ctx}: the hook left an empty name and a malformed checksum, the result is {}", describe(other))),
            },
            Expect::RefusedOrCanonical => match result {
                Err(SimError::Parse(_)) => Ok(()),
                Ok(purl) => {
                    let text = purl.qualifiers().get("checksum").unwrap_or("");
                    match canonical_checksum(text) {
                        Ok(canon) if canon == text => Ok(()),
                        _ => Err(violation!("C14.checksum_neither_canonical_nor_refused", "{ctx}: the hook left a checksum with a repeated algorithm {:?}; the PURL carries {text:?}, which is not in canonical form", after.qualifiers)),
                    }
                },
                other => Err(violation!("C14.checksum_neither_canonical_nor_refused", "{ctx}: the hook left a checksum with a repeated algorithm, the result is {}", describe(other))),
            },
            Expect::MissingName => match result {
                // "Refused": any generic error; which variant is C05's business, not C14's.
                Err(SimError::Parse(_)) => Ok(()),
                other => Err(violation!("C14.emptied_name_not_refused", "{ctx}: the hook left an empty name, the result is {}", describe(other))),
            },
            Expect::InvalidQualifier => match result {
                Err(SimError::Parse(_)) => Ok(()),
                other => Err(violation!("C14.malformed_checksum_not_refused", "{ctx}: the hook left a malformed checksum {:?}, the result is {}", after.qualifiers, describe(other))),
            },
            Expect::Purl { snap, ty } => match result {
                Ok(purl) => check_purl(purl, &snap, &ty, ctx),
                other => Err(violation!("C14.valid_parts_refused", "{ctx}: the hook left valid parts {:?}, the result is {}", snap, describe(other))),
            },
        },
        Some(Event::Conv { .. }) => Ok(()),
    }
}

fn script_class(s: &Script) -> String {
    let conv = match s.conv {
        ConvPlan::Accept => "accept",
        ConvPlan::AcceptAs(_) => "accept_as",
        ConvPlan::Fail => "conv_fail",
    };
    let hook = match s.hook.len() {
        0 => "noop",
        1 => s.hook[0].kind(),
        _ => "multi",
    };
    format!("{conv}/{hook}/{}", if s.hook_fails { "hook_fail" } else { "hook_ok" })
}

fn result_class(r: &Result<GenericPurl<SimShape>, SimError>) -> &'static str {
    match r {
        Ok(_) => "ok",
        Err(SimError::Conv(_)) => "err_conv",
        Err(SimError::Hook(_)) => "err_hook",
        Err(SimError::Parse(ParseError::MissingRequiredField(PurlField::Name))) => "err_missing_name",
        Err(SimError::Parse(ParseError::InvalidQualifier)) => "err_invalid_qualifier",
        Err(SimError::Parse(_)) => "err_parse_other",
    }
}

fn apply_calls(mut b: GenericPurlBuilder<SimShape>, calls: &[BuilderCall]) -> Option<GenericPurlBuilder<SimShape>> {
    for call in calls {
        b = match call {
            BuilderCall::WithNamespace(s) => b.with_namespace(s.as_str()),
            BuilderCall::WithoutNamespace => b.without_namespace(),
            BuilderCall::WithName(s) => b.with_name(s.as_str()),
            BuilderCall::WithVersion(s) => b.with_version(s.as_str()),
            BuilderCall::WithoutVersion => b.without_version(),
            BuilderCall::WithSubpath(s) => b.with_subpath(s.as_str()),
            BuilderCall::WithoutSubpath => b.without_subpath(),
            BuilderCall::WithQualifier(k, v) => b.with_qualifier(k.as_str(), v.as_str()).ok()?,
            BuilderCall::WithoutQualifier(k) => b.without_qualifier(k.as_str()),
            BuilderCall::WithoutQualifiers => b.without_qualifiers(),
            BuilderCall::WithPackageType(t) => b.with_package_type(SimShape { ty: t.clone() }),
            BuilderCall::WithTypedQualifier(which, v) => {
                use purl::qualifiers::well_known::{DownloadUrl, FileName, RepositoryUrl, VcsUrl};
                match which % 4 {
                    0 => b.with_typed_qualifier(Some(RepositoryUrl::from(v.as_str()))),
                    1 => b.with_typed_qualifier(Some(DownloadUrl::from(v.as_str()))),
                    2 => b.with_typed_qualifier(Some(VcsUrl::from(v.as_str()))),
                    _ => b.with_typed_qualifier(Some(FileName::from(v.as_str()))),
                }
            },
            BuilderCall::WithoutTypedQualifier(which) => {
                use purl::qualifiers::well_known::{DownloadUrl, FileName, RepositoryUrl, VcsUrl};
                match which % 4 {
                    0 => b.with_typed_qualifier(None::<RepositoryUrl>),
                    1 => b.with_typed_qualifier(None::<DownloadUrl>),
                    2 => b.with_typed_qualifier(None::<VcsUrl>),
                    _ => b.with_typed_qualifier(None::<FileName>),
                }
            },
            BuilderCall::TryWithChecksum(pairs) => {
                let mut c = purl::qualifiers::well_known::Checksum::default();
                for (alg, hex) in pairs {
                    c.insert_raw(alg, hex.clone());
                }
                b.try_with_typed_qualifier(Some(c)).ok()?
            },
            BuilderCall::WithoutChecksum => b.try_with_typed_qualifier(None::<purl::qualifiers::well_known::Checksum>).ok()?,
            BuilderCall::DirectEdit(which, v) => {
                let mut b = b;
                match which % 4 {
                    0 => b.parts.name = v.as_str().into(),
                    1 => b.parts.namespace = v.as_str().into(),
                    2 => b.parts.version = v.as_str().into(),
                    _ => b.parts.subpath = v.as_str().into(),
                }
                b
            },
            BuilderCall::DirectRetype(t) => {
                let mut b = b;
                b.package_type = SimShape { ty: t.clone() };
                b
            },
        };
    }
    Some(b)
}

pub struct C14;

const BENIGN: Script = Script { conv: ConvPlan::Accept, hook: Vec::new(), hook_fails: false };

impl C14 {
    fn run_script(
        &self,
        workload: &Workload,
        n: usize,
        script: &Script,
        log: &mut Log,
        stats: &mut Stats,
    ) -> Result<bool, Violation> {
        let token_base = 1000 * (n as u64 + 1);
        let ctx_owned;
        let (kind, workload_kind, input, reference_accepts, result) = match workload {
            Workload::Parse { input } => {
                let reference = guarded(|| GenericPurl::<String>::from_str(input))
                    .map_err(|p| violation!("C14.panic_in_parse", "parsing {input:?} with the String shape panicked: {p}"))?;
                install(script, token_base);
                let r = guarded(|| GenericPurl::<SimShape>::from_str(input))
                    .map_err(|p| violation!("C14.panic_in_parse", "script {n} {script:?}: parsing {input:?} panicked: {p}"))?;
                ctx_owned = format!("script {n} {script:?}, parse {input:?}");
                (Kind::Parse, if reference.is_ok() { "parse_valid" } else { "parse_refused_by_generic" }, Some(input.as_str()), Some(reference.is_ok()), r)
            },
            Workload::Build { ty, name, calls, clone_first } => {
                install(script, token_base);
                let Some(builder) = apply_calls(GenericPurlBuilder::new(SimShape { ty: ty.clone() }, name.as_str()), calls) else {
                    // A setter refused its argument; nothing was built and no callback may have run.
                    let (events, _) = take_events();
                    if !events.is_empty() {
                        return Err(violation!("C14.callback_without_build", "script {n}: builder setters invoked callbacks: {events:?}"));
                    }
                    stats.bump("workload.build_setter_refused");
                    return Ok(false);
                };
                if *clone_first {
                    let copy = builder.clone();
                    let r = guarded(move || copy.build()).map_err(|p| violation!("C14.panic_in_build", "script {n} {script:?}: build() of a cloned builder panicked: {p}"))?;
                    let (events, _) = take_events();
                    judge(Kind::Build, None, None, &events, &r, &format!("script {n} {script:?}, build of a clone of {ty:?}/{name:?} {calls:?}"))?;
                    stats.bump("workload.build_of_clone");
                    install(script, token_base + 500);
                }
                let r = guarded(move || builder.build()).map_err(|p| violation!("C14.panic_in_build", "script {n} {script:?}: build() panicked: {p}"))?;
                ctx_owned = format!("script {n} {script:?}, build {ty:?}/{name:?} {calls:?}");
                (Kind::Build, "build", None, None, r)
            },
            Workload::New { ty, name } => {
                install(script, token_base);
                let shape = SimShape { ty: ty.clone() };
                let r = guarded(|| GenericPurl::new(shape, name.as_str())).map_err(|p| violation!("C14.panic_in_build", "script {n}: GenericPurl::new panicked: {p}"))?;
                ctx_owned = format!("script {n} {script:?}, GenericPurl::new({ty:?}, {name:?})");
                (Kind::Build, "new", None, None, r)
            },
            Workload::Deserialize { input } => {
                let reference = guarded(|| GenericPurl::<String>::from_str(input))
                    .map_err(|p| violation!("C14.panic_in_parse", "parsing {input:?} with the String shape panicked: {p}"))?;
                install(script, token_base);
                let value = serde_json::Value::String(input.clone());
                let r = guarded(|| serde_json::from_value::<GenericPurl<SimShape>>(value))
                    .map_err(|p| violation!("C14.panic_in_parse", "script {n} {script:?}: deserialising {input:?} panicked: {p}"))?
                    .map_err(|e| error_from_text(&e.to_string()));
                ctx_owned = format!("script {n} {script:?}, deserialize {input:?}");
                (Kind::Parse, if reference.is_ok() { "deserialize_valid" } else { "deserialize_refused_by_generic" }, Some(input.as_str()), Some(reference.is_ok()), r)
            },
            Workload::Rebuild { input, calls } => {
                install(&BENIGN, token_base);
                let first = guarded(|| GenericPurl::<SimShape>::from_str(input))
                    .map_err(|p| violation!("C14.panic_in_parse", "parsing {input:?} panicked: {p}"))?;
                let Ok(first) = first else {
                    stats.bump("workload.rebuild_input_refused");
                    return Ok(false);
                };
                install(script, token_base);
                let Some(builder) = apply_calls(first.into_builder(), calls) else {
                    let (events, _) = take_events();
                    if !events.is_empty() {
                        return Err(violation!("C14.callback_without_build", "script {n}: builder setters invoked callbacks: {events:?}"));
                    }
                    stats.bump("workload.build_setter_refused");
                    return Ok(false);
                };
                let r = guarded(move || builder.build()).map_err(|p| violation!("C14.panic_in_build", "script {n} {script:?}: re-build of {input:?} panicked: {p}"))?;
                ctx_owned = format!("script {n} {script:?}, into_builder() {calls:?} build() of {input:?}");
                (Kind::Build, "rebuild", None, None, r)
            },
        };
        let (events, type_queries) = take_events();
        let ctx = ctx_owned.as_str();
        ev!(log, "script {n} {} -> {} callbacks, {} type queries, result {}", script_class(script), events.len(), type_queries, describe(&result));
        for e in &events {
            match e {
                Event::Conv { arg, token } => ev!(log, "  conv({arg:?}) -> {}", token.map_or("ok".to_owned(), |t| format!("Conv#{t}"))),
                Event::Finish { before, after, shape_after, token } => {
                    ev!(log, "  finish before={before:?} after={after:?} shape={shape_after:?} -> {}", token.map_or("ok".to_owned(), |t| format!("Hook#{t}")))
                },
            }
        }
        judge(kind, input, reference_accepts, &events, &result, ctx)?;

        // Nothing but parsing and build() may call back into the user's type: reading, cloning,
        // comparing and printing a PURL, and turning it back into a builder, must not.
        if let Ok(purl) = &result {
            install(script, token_base + 700);
            guarded(|| {
                let copy = purl.clone();
                let _ = copy == *purl;
                let _ = (copy.name().len(), copy.namespace(), copy.version(), copy.subpath(), copy.qualifiers().len());
                let _ = copy.to_string();
                let _builder = copy.into_builder();
            })
            .map_err(|p| violation!("C14.panic_in_accessors", "{ctx}: reading / cloning / printing the PURL panicked: {p}"))?;
            let (stray, _) = take_events();
            if !stray.is_empty() {
                return Err(violation!(
                    "C14.callback_outside_parse_and_build",
                    "{ctx}: reading, cloning, comparing, printing or into_builder() of the finished PURL called back into the user's type: {stray:?}"
                ));
            }
        }

        // Statistics: which faults actually fired, and the reach table.
        let mut history = String::new();
        for e in &events {
            match e {
                Event::Conv { token, .. } => {
                    history.push_str(if token.is_some() { "C!" } else { "C" });
                    if token.is_some() {
                        stats.bump("fault.conversion_failure_fired");
                    }
                },
                Event::Finish { token, .. } => {
                    history.push_str(if token.is_some() { "F!" } else { "F" });
                    if token.is_some() {
                        stats.bump("fault.hook_failure_fired");
                    }
                    for a in &script.hook {
                        stats.bump(a.kind());
                    }
                },
            }
        }
        let cell = format!("{workload_kind}|{}|{history}|{}", script_class(script), result_class(&result));
        let mut h = Fnv::default();
        h.write(cell.as_bytes());
        stats.reach(h.finish());
        match workload_kind {
            "parse_valid" => stats.bump("workload.parse_valid"),
            "parse_refused_by_generic" => stats.bump("workload.parse_refused_by_generic"),
            "build" => stats.bump("workload.build"),
            "new" => stats.bump("workload.new"),
            "deserialize_valid" | "deserialize_refused_by_generic" => stats.bump("workload.deserialize"),
            _ => stats.bump("workload.rebuild"),
        }
        stats.bump("scripted_executions");
        Ok(!events.is_empty() && *script != BENIGN)
    }
}

fn action_menu(rng: &mut Rng) -> Vec<HookAction> {
    let rich = |rng: &mut Rng| gen::component(rng, true);
    vec![
        HookAction::ClearName,
        HookAction::SetName(rich(rng)),
        HookAction::SetNamespace(if rng.chance(1, 3) { (*rng.pick(&["a//b", "/a/", "//", "a/./b", "a/../b", "A/b"])).to_owned() } else { rich(rng) }),
        HookAction::SetVersion(rich(rng)),
        HookAction::SetSubpath(if rng.chance(1, 3) { (*rng.pick(&["a//b", "/a/", "../x", "./x", "a/.."])).to_owned() } else { rich(rng) }),
        HookAction::InsertQualifier(gen::qualifier_key(rng), rich(rng)),
        HookAction::InsertEmptyQualifier(gen::qualifier_key(rng)),
        HookAction::InsertInvalidKey((*rng.pick(&["", "a b", "k!", "é", "a=b", "%41"])).to_owned(), rich(rng)),
        HookAction::BlankExistingQualifier(rng.below(4)),
        HookAction::BlankAllQualifiers,
        HookAction::BlankAdjacentPair(rng.below(4)),
        HookAction::RemoveQualifier(rng.below(4)),
        HookAction::RemoveVia(rng.below(4) as u8, rng.below(4)),
        HookAction::ClearQualifiers,
        HookAction::InsertChecksumWellFormed(gen::checksum_text(rng, true)),
        HookAction::InsertChecksumMalformed(gen::checksum_text(rng, false)),
        HookAction::RetypeSelf((*rng.pick(&["other", "npm", "x-y", "a.b", "c++"])).to_owned()),
        write_action(rng),
        write_action(rng),
        write_action(rng),
        write_action(rng),
    ]
}

fn write_action(rng: &mut Rng) -> HookAction {
    let path = *rng.pick(WRITE_PATHS);
    let target = match rng.below(5) {
        0 | 1 => Target::Existing(rng.below(4)),
        2 => Target::Key(gen::qualifier_key(rng)),
        _ => Target::Checksum,
    };
    let value = match (&target, rng.below(6)) {
        (_, 0) => String::new(),
        (Target::Checksum, 1..=3) => gen::checksum_text(rng, true),
        (Target::Checksum, _) => gen::checksum_text(rng, false),
        _ => gen::component(rng, true),
    };
    HookAction::Write { path, target, value }
}

fn builder_calls(rng: &mut Rng) -> Vec<BuilderCall> {
    let n = rng.below(6);
    (0..n)
        .map(|_| match rng.below(18) {
            12 => BuilderCall::WithTypedQualifier(rng.below(4) as u8, if rng.chance(1, 6) { String::new() } else { gen::component(rng, true) }),
            13 => BuilderCall::WithoutTypedQualifier(rng.below(4) as u8),
            14 => {
                let n = rng.range(1, 3);
                BuilderCall::TryWithChecksum(
                    (0..n)
                        .map(|_| ((*rng.pick(&["sha1", "SHA256", "md5", "a:b", "é"])).to_owned(), (*rng.pick(&["", "00", "AbCd", "0", "zz"])).to_owned()))
                        .collect(),
                )
            },
            15 => BuilderCall::WithoutChecksum,
            16 => BuilderCall::DirectEdit(rng.below(4) as u8, if rng.chance(1, 5) { String::new() } else { gen::component(rng, true) }),
            17 => BuilderCall::DirectRetype(gen::type_string(rng, false).to_ascii_lowercase()),
            0 => BuilderCall::WithNamespace(gen::component(rng, true)),
            1 => BuilderCall::WithoutNamespace,
            2 => BuilderCall::WithName(if rng.chance(1, 5) { String::new() } else { gen::component(rng, true) }),
            3 => BuilderCall::WithVersion(gen::component(rng, true)),
            4 => BuilderCall::WithoutVersion,
            5 => BuilderCall::WithSubpath(gen::component(rng, true)),
            6 => BuilderCall::WithoutSubpath,
            7 | 8 => BuilderCall::WithQualifier(
                if rng.chance(1, 10) { "bad key".to_owned() } else { gen::qualifier_key(rng) },
                if rng.chance(1, 6) { String::new() } else { gen::component(rng, true) },
            ),
            9 => {
                let well_formed = rng.chance(3, 4);
                BuilderCall::WithQualifier("checksum".to_owned(), gen::checksum_text(rng, well_formed))
            },
            10 => BuilderCall::WithoutQualifier(gen::qualifier_key(rng)),
            _ => BuilderCall::WithPackageType(gen::type_string(rng, false).to_ascii_lowercase()),
        })
        .collect()
}

impl Sim for C14 {
    type Scenario = Scenario;

    fn id(&self) -> &'static str {
        "C14"
    }

    fn generate(&self, seed: u64) -> Scenario {
        let mut rng = Rng::new(seed);
        let workload = match rng.below(11) {
            10 => {
                let mut input = gen::any_input(&mut rng, false);
                // The serde entry point sees strings nobody trimmed: sometimes pad them.
                if rng.chance(1, 4) {
                    let pad = *rng.pick(&[" ", "\n", "\t", "\r\n", "\u{a0}", "\u{feff}"]);
                    match rng.below(3) {
                        0 => input.insert_str(0, pad),
                        1 => input.push_str(pad),
                        _ => {
                            input.insert_str(0, pad);
                            input.push_str(pad);
                        },
                    }
                }
                Workload::Deserialize { input }
            },
            0..=5 => Workload::Parse { input: gen::any_input(&mut rng, false) },
            6..=7 => Workload::Build {
                ty: gen::type_string(&mut rng, false).to_ascii_lowercase(),
                name: if rng.chance(1, 8) { String::new() } else { gen::component(&mut rng, true) },
                calls: builder_calls(&mut rng),
                clone_first: rng.chance(1, 4),
            },
            8 => Workload::New {
                ty: gen::type_string(&mut rng, false).to_ascii_lowercase(),
                name: if rng.chance(1, 8) { String::new() } else { gen::component(&mut rng, true) },
            },
            _ => {
                let c = gen::components(&mut rng, false);
                Workload::Rebuild {
                    input: gen::spell(&c, if rng.chance(1, 2) { 0 } else { rng.subseed() }),
                    calls: if rng.chance(1, 2) { Vec::new() } else { builder_calls(&mut rng) },
                }
            },
        };
        // The complete menu of single-fault scripts: conv in 3 x hook in {nothing, each action} x result in 2.
        let menu = action_menu(&mut rng);
        let convs = [
            ConvPlan::Accept,
            ConvPlan::AcceptAs((*rng.pick(&["other", "generic", "x-y", "npm"])).to_owned()),
            ConvPlan::Fail,
        ];
        let mut scripts = Vec::with_capacity(100);
        for conv in &convs {
            for hook_fails in [false, true] {
                scripts.push(Script { conv: conv.clone(), hook: Vec::new(), hook_fails });
                for action in &menu {
                    scripts.push(Script { conv: conv.clone(), hook: vec![action.clone()], hook_fails });
                }
            }
        }
        // A seeded sample of multi-action scripts.
        for _ in 0..10 {
            let fresh = action_menu(&mut rng);
            let k = rng.range(2, 4);
            let hook: Vec<HookAction> = (0..k).map(|_| rng.pick(&fresh).clone()).collect();
            scripts.push(Script {
                conv: if rng.chance(1, 10) { convs[2].clone() } else { convs[rng.below(2)].clone() },
                hook,
                hook_fails: rng.chance(1, 6),
            });
        }
        Scenario { workload, scripts }
    }

    fn execute(&self, sc: &Scenario, log: &mut Log, stats: &mut Stats) -> Result<bool, Violation> {
        ev!(log, "workload {:?}", sc.workload);
        let mut nontrivial = false;
        for (n, script) in sc.scripts.iter().enumerate() {
            nontrivial |= self.run_script(&sc.workload, n, script, log, stats)?;
        }
        Ok(nontrivial)
    }

    fn shrink_candidates(&self, sc: &Scenario) -> Vec<Scenario> {
        let mut out = Vec::new();
        // One script at a time first (the usual minimal form), then dropping scripts.
        if sc.scripts.len() > 1 {
            for s in &sc.scripts {
                out.push(Scenario { workload: sc.workload.clone(), scripts: vec![s.clone()] });
            }
        }
        if sc.scripts.len() == 1 {
            let s = &sc.scripts[0];
            for i in 0..s.hook.len() {
                let mut t = s.clone();
                t.hook.remove(i);
                out.push(Scenario { workload: sc.workload.clone(), scripts: vec![t] });
            }
            if s.hook_fails {
                let mut t = s.clone();
                t.hook_fails = false;
                out.push(Scenario { workload: sc.workload.clone(), scripts: vec![t] });
            }
            if s.conv != ConvPlan::Accept {
                let mut t = s.clone();
                t.conv = ConvPlan::Accept;
                out.push(Scenario { workload: sc.workload.clone(), scripts: vec![t] });
            }
        }
        // Simpler workloads.
        match &sc.workload {
            Workload::Parse { input } | Workload::Rebuild { input, .. } | Workload::Deserialize { input } => {
                if let Workload::Rebuild { calls, .. } = &sc.workload {
                    for i in 0..calls.len() {
                        let mut c = calls.clone();
                        c.remove(i);
                        out.push(Scenario { workload: Workload::Rebuild { input: input.clone(), calls: c }, scripts: sc.scripts.clone() });
                    }
                }
                let mk = |s: String| match &sc.workload {
                    Workload::Rebuild { calls, .. } => Workload::Rebuild { input: s, calls: calls.clone() },
                    Workload::Deserialize { .. } => Workload::Deserialize { input: s },
                    _ => Workload::Parse { input: s },
                };
                if matches!(sc.workload, Workload::Deserialize { .. }) {
                    out.push(Scenario { workload: Workload::Parse { input: input.clone() }, scripts: sc.scripts.clone() });
                }
                // Cut the tail at separators, then remove chunks of characters.
                for sep in ['#', '?', '@'] {
                    if let Some(at) = input.rfind(sep) {
                        out.push(Scenario { workload: mk(input[..at].to_owned()), scripts: sc.scripts.clone() });
                    }
                }
                for shorter in string_shrinks(input) {
                    out.push(Scenario { workload: mk(shorter), scripts: sc.scripts.clone() });
                }
            },
            Workload::Build { ty, name, calls, clone_first } => {
                if *clone_first {
                    out.push(Scenario { workload: Workload::Build { ty: ty.clone(), name: name.clone(), calls: calls.clone(), clone_first: false }, scripts: sc.scripts.clone() });
                }
                for i in 0..calls.len() {
                    let mut c = calls.clone();
                    c.remove(i);
                    out.push(Scenario { workload: Workload::Build { ty: ty.clone(), name: name.clone(), calls: c, clone_first: *clone_first }, scripts: sc.scripts.clone() });
                }
                if calls.is_empty() && !*clone_first {
                    out.push(Scenario { workload: Workload::New { ty: ty.clone(), name: name.clone() }, scripts: sc.scripts.clone() });
                }
                if name != "n" && !name.is_empty() {
                    out.push(Scenario { workload: Workload::Build { ty: ty.clone(), name: "n".into(), calls: calls.clone(), clone_first: *clone_first }, scripts: sc.scripts.clone() });
                }
            },
            Workload::New { ty, name } => {
                if name != "n" && !name.is_empty() {
                    out.push(Scenario { workload: Workload::New { ty: ty.clone(), name: "n".into() }, scripts: sc.scripts.clone() });
                }
            },
        }
        out
    }

    fn rule(&self) -> &'static str {
        "A case is one workload item (a parse of a valid / defective / mutated PURL string with SimShape, a builder call \
         list + build(), GenericPurl::new, or into_builder().build() of a parsed PURL) executed under ~100 fault scripts \
         for the user side: the COMPLETE menu of single-fault scripts (conversion accept / accept-as-other-type / fail x \
         hook does nothing or one of 14 misbehaviours x hook returns Ok / Err = 90) plus 10 sampled multi-action scripts. \
         evaluations counts workload items (scenarios); counters.scripted_executions counts script executions. \
         Non-trivial: at least one callback was recorded under a script other than the all-succeed no-op. Distinct: distinct \
         event-log digests among non-trivial scenarios (the log holds every callback with its argument, the parts before \
         and after the hook, and the result)."
    }

    fn components(&self) -> serde_json::Value {
        json!({
            "real": ["purl parser (FromStr for GenericPurl<T>)", "purl builder incl. build() generic checks", "Qualifiers", "Checksum canonicalisation", "Display"],
            "stub": ["the user-supplied package type: SimShape (FromStr + PurlShape) driven by a fault script; it is the simulated peer, not code under test"],
        })
    }

    fn assumptions(&self) -> Vec<String> {
        vec![
            "whether the generic (pre-hook) part of a parse succeeds is taken from the type-agnostic GenericPurl<String> parser on the same input (differential), never from the generator".into(),
            "printing is compared with the library's own formatter on a GenericPurl<String> built from the same type and parts (C14 needs 'what is printed is what is reported', not an independent escaper)".into(),
            "not asserted: how often package_type() is queried; the order of parser checks before the conversion; which error is returned when an emptied name and a malformed checksum coincide".into(),
            "scripts never make package_type() report an invalid type string (that panic in Display is documented)".into(),
        ]
    }

    fn evidence_extra(&self, stats: &Stats, _quick: bool) -> (serde_json::Value, Vec<String>) {
        let mut unmet = Vec::new();
        let mut fired = serde_json::Map::new();
        for k in ACTION_KINDS {
            fired.insert((*k).to_owned(), json!(stats.get(k)));
            if stats.get(k) == 0 {
                unmet.push(format!("hook action {k} never ran"));
            }
        }
        for k in ["fault.conversion_failure_fired", "fault.hook_failure_fired"] {
            fired.insert(k.to_owned(), json!(stats.get(k)));
            if stats.get(k) == 0 {
                unmet.push(format!("{k} stuck at zero"));
            }
        }
        for k in ["workload.parse_valid", "workload.parse_refused_by_generic", "workload.build", "workload.new", "workload.rebuild", "workload.deserialize"] {
            if stats.get(k) == 0 {
                unmet.push(format!("{k} stuck at zero"));
            }
        }
        (
            json!({
                "distinct_states_measure": "distinct tuples (workload kind, script class, callback history shape, result class)",
                "distinct_states": stats.reach.len(),
                "fault_kinds_fired": fired,
                "scripted_executions": stats.get("scripted_executions"),
                "single_fault_menu_is_enumerated_completely_per_workload_item": true,
            }),
            unmet,
        )
    }
}
