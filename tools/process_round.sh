#!/usr/bin/env bash
# Take in one round of sub-agent deliveries.
#
#   tools/process_round.sh seeded <round-prefix>     e.g. seeded r8   (deliveries in /tmp/seeded-out/r8c12/1 ...)
#   tools/process_round.sh silent <round-prefix>     e.g. silent s2   (deliveries in /tmp/silent-out/s2c12/1 ...)
#
# Copies patch/demo/notes into /verif/<kind>/<id>/, removes the agents' worktrees, confirms seeded
# changes independently (tools/verify_seeded.sh) and runs the quick checks against every patch
# (tools/run_mutants.sh). Results go to /tmp/<prefix>-results.tsv; nothing is appended to the
# committed tables (that is done by hand, once the round has been looked at).
set -u
KIND="$1"; PFX="$2"
cd /verif || exit 2
SRC="/tmp/$KIND-out"
[ "$KIND" = "seeded" ] && EXPECT=caught || EXPECT=silent
RUN="/tmp/${PFX}run"; rm -rf "$RUN"; mkdir -p "$RUN"
: >"$RUN/INDEX.tsv"
for a in "$SRC"/${PFX}c12 "$SRC"/${PFX}c14 "$SRC"/${PFX}c16; do
    [ -d "$a" ] || continue
    agent="$(basename "$a")"
    for n in 1 2 3 4 5; do
        [ -f "$a/$n/patch.diff" ] || continue
        id="$agent-$n"; d="/verif/$KIND/$id"; mkdir -p "$d"
        cp "$a/$n/patch.diff" "$d/"; cp "$a/$n/notes.md" "$d/" 2>/dev/null; cp "$a/$n/demo.rs" "$d/" 2>/dev/null
        ln -sfn "$d" "$RUN/$id"
        prop="$(echo "$agent" | sed -E 's/^[a-z][0-9]+c/C/')"
        printf '%s\t%s\t%s\n' "$id" "$prop" "$EXPECT" >>"$RUN/INDEX.tsv"
    done
    git -C /repo worktree remove --force "/tmp/wt-$agent" 2>/dev/null; rm -rf "/tmp/wt-$agent"
done
if [ "$KIND" = "seeded" ]; then
    tools/verify_seeded.sh $(cut -f1 "$RUN/INDEX.tsv" | sed 's|^|/verif/seeded/|') 2>&1 | tail -n 20
fi
tools/run_mutants.sh "$RUN" 2>&1 | cut -c1-230
cp "$RUN/RESULTS.tsv" "/tmp/${PFX}-results.tsv"
cp "$RUN/INDEX.tsv" "/tmp/${PFX}-index.tsv"
rm -rf "$RUN"
