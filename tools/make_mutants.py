#!/usr/bin/env python3
"""Generate the sensitivity / silence patch set under /verif/mutants from the current /repo HEAD.

Each entry is (name, property, expectation, [(file, old, new), ...]). `expectation` is "caught"
(the change breaks the property; the quick check must report a violation) or "silent" (the change
preserves the behaviour the property talks about; the quick check must stay quiet).
Patches are produced with `git diff` against a clean tree and the tree is restored afterwards.
"""
import os
import subprocess
import sys

REPO = "/repo"
OUT = "/verif/mutants"

WK = "purl/src/qualifiers/well_known.rs"
BU = "purl/src/builder.rs"
PA = "purl/src/parse.rs"
FO = "purl/src/format.rs"
LI = "purl/src/lib.rs"

SORT = "        algorithms.sort_unstable_by(|a, b| a.0.cmp(&b.0));\n"
CHECKSUM_STEP = """        if let Some(checksum) = self.parts.qualifiers.try_get_typed::<Checksum>()? {
            // We can't just use `try_insert_typed` because we can't express to the borrow
            // checker that `Checksum<'a>`'s immutable borrow of `self.parts.qualifiers`
            // ends in the middle of `try_insert_typed` before the mutable borrow is
            // required.
            self.parts.qualifiers.insert(Checksum::KEY, SmallString::try_from(checksum)?)?;
        }
"""
FINISH = "        self.package_type.finish(&mut self.parts)?;\n"
NAMECHECK = """        if self.parts.name.is_empty() {
            return Err(T::Error::from(ParseError::MissingRequiredField(crate::PurlField::Name)));
        }
"""

MUTANTS = [
    # ---------------------------------------------------------------- C12
    ("c12-no-sort", "C12", "caught", [(WK, SORT, "")]),
    ("c12-sort-by-hex", "C12", "caught", [(WK, SORT, "        algorithms.sort_unstable_by(|a, b| a.1.cmp(&b.1));\n")]),
    ("c12-sort-by-alg-length", "C12", "caught", [(WK, SORT, "        algorithms.sort_unstable_by(|a, b| a.0.len().cmp(&b.0.len()));\n")]),
    ("c12-sort-by-first-byte", "C12", "caught", [(WK, SORT, "        algorithms.sort_unstable_by(|a, b| a.0.as_bytes().first().cmp(&b.0.as_bytes().first()));\n")]),
    ("c12-sort-descending-then-reverse-only-if-many", "C12", "caught", [(WK, SORT, "        algorithms.sort_unstable_by(|a, b| a.0.cmp(&b.0));\n        if algorithms.len() > 5 {\n            algorithms.swap(0, 1);\n        }\n")]),
    ("c12-keep-hex-case", "C12", "caught", [(WK, "            v.extend(bytes.chars().map(|c| c.to_ascii_lowercase()));\n", "            v.push_str(&bytes);\n")]),
    ("c12-insert-raw-keeps-alg-case", "C12", "caught", [(WK, "            self.algorithms.insert(copy_as_lowercase(algorithm), Cow::Owned(value));\n", "            self.algorithms.insert(SmallString::from(algorithm), Cow::Owned(value));\n")]),
    ("c12-parse-keeps-alg-case", "C12", "caught", [(WK, "            let algorithm = copy_as_lowercase(algorithm);\n", "            let algorithm = SmallString::from(algorithm);\n")]),
    ("c12-build-skips-canonicalisation", "C12", "caught", [(BU, CHECKSUM_STEP, "        let _ = self.parts.qualifiers.try_get_typed::<Checksum>()?;\n")]),
    ("c12-split-at-first-colon", "C12", "caught", [(WK, "hash.rsplit_once(':')", "hash.split_once(':')")]),
    ("c12-ascii-only-lowercase", "C12", "caught", [(WK, "            let algorithm = copy_as_lowercase(algorithm);\n", "            let algorithm = SmallString::from(algorithm.to_ascii_lowercase());\n")]),
    ("c12-sort-skipped-above-16-entries", "C12", "caught", [(WK, SORT, "        if algorithms.len() <= 16 {\n            algorithms.sort_unstable_by(|a, b| a.0.cmp(&b.0));\n        }\n")]),
    ("c12-sort-compares-6-byte-prefix", "C12", "caught", [(WK, SORT, "        algorithms.sort_unstable_by(|a, b| {\n            let (x, y) = (a.0.as_bytes(), b.0.as_bytes());\n            x[..x.len().min(6)].cmp(&y[..y.len().min(6)])\n        });\n")]),
    ("c12-long-hex-keeps-case", "C12", "caught", [(WK, "            v.extend(bytes.chars().map(|c| c.to_ascii_lowercase()));\n", "            if bytes.len() > 128 {\n                v.push_str(&bytes);\n            } else {\n                v.extend(bytes.chars().map(|c| c.to_ascii_lowercase()));\n            }\n")]),
    ("c12-insert-raw-ascii-lowercase-only", "C12", "caught", [(WK, "            self.algorithms.insert(copy_as_lowercase(algorithm), Cow::Owned(value));\n", "            self.algorithms.insert(SmallString::from(algorithm.to_ascii_lowercase()), Cow::Owned(value));\n")]),
    ("c12-build-canonicalises-only-lists", "C12", "caught", [(BU, "        if let Some(checksum) = self.parts.qualifiers.try_get_typed::<Checksum>()? {\n", "        let single = self.parts.qualifiers.get(Checksum::KEY).is_some_and(|v| !v.contains(','));\n        if let Some(checksum) = self.parts.qualifiers.try_get_typed::<Checksum>()?.filter(|_| !single) {\n")]),
    ("c12-long-algorithm-not-lowercased", "C12", "caught", [(WK, "            self.algorithms.insert(copy_as_lowercase(algorithm), Cow::Owned(value));\n", "            let key = if algorithm.len() > 8 { SmallString::from(algorithm) } else { copy_as_lowercase(algorithm) };\n            self.algorithms.insert(key, Cow::Owned(value));\n")]),
    ("c12-sort-by-uppercased-name", "C12", "caught", [(WK, SORT, "        algorithms.sort_unstable_by_key(|a| a.0.to_uppercase());\n")]),
    ("c12-duplicate-check-dropped", "C12", "silent", [(WK, "            if algorithms.insert(algorithm, Cow::Borrowed(bytes)).is_some() {\n                // Duplicate algorithm.\n                return Err(ParseError::InvalidQualifier);\n            }\n", "            algorithms.insert(algorithm, Cow::Borrowed(bytes));\n")]),
    ("c12-btreemap-instead-of-hashmap", "C12", "silent", [
        (WK, "use std::collections::hash_map::Iter as HashMapIter;\n", "use std::collections::btree_map::Iter as HashMapIter;\nuse std::collections::BTreeMap;\n"),
        (WK, "#[cfg(not(purl_verif))]\nuse std::collections::HashMap;\n", ""),
        (WK, "#[cfg(purl_verif)]\nuse crate::verif::HashMap;\n", ""),
        (WK, "    algorithms: HashMap<SmallString, Cow<'a, str>>,\n", "    algorithms: BTreeMap<SmallString, Cow<'a, str>>,\n"),
        (WK, "        let mut algorithms =\n            HashMap::with_capacity(value.chars().filter(|c| *c == ',').count() + 1);\n", "        let mut algorithms = BTreeMap::new();\n"),
    ]),
    ("c16-display-via-intermediate-string", "C16", "silent", [(FO, "        let package_type = self.package_type().package_type();\n\n        if !is_valid_package_type(&package_type) {", "        let rendered = Rendered(self).render()?;\n        return f.write_str(&rendered);\n    }\n}\n\nstruct Rendered<'a, T>(&'a GenericPurl<T>);\n\nimpl<T: PurlShape> Rendered<'_, T> {\n    fn render(&self) -> Result<String, fmt::Error> {\n        use fmt::Write;\n        let mut out = String::new();\n        let f = &mut out;\n        let this = self.0;\n        let package_type = this.package_type().package_type();\n\n        if !is_valid_package_type(&package_type) {"),
        (FO, "        if let Some(namespace) = self.namespace() {", "        if let Some(namespace) = this.namespace() {"),
        (FO, "utf8_percent_encode(self.name(), PURL_PATH_SEGMENT)", "utf8_percent_encode(this.name(), PURL_PATH_SEGMENT)"),
        (FO, "        if let Some(version) = self.version() {", "        if let Some(version) = this.version() {"),
        (FO, "        if !self.parts.qualifiers.is_empty() {\n            let mut prefix = '?';\n            for (k, v) in &self.parts.qualifiers {", "        if !this.parts.qualifiers.is_empty() {\n            let mut prefix = '?';\n            for (k, v) in &this.parts.qualifiers {"),
        (FO, "        if let Some(subpath) = self.subpath() {", "        if let Some(subpath) = this.subpath() {"),
        (FO, "            write!(f, \"#{}\", utf8_percent_encode(subpath, PURL_FRAGMENT))?;\n        }\n\n        Ok(())\n", "            write!(f, \"#{}\", utf8_percent_encode(subpath, PURL_FRAGMENT))?;\n        }\n\n        Ok(out)\n"),
    ]),
    ("c14-retain-before-name-check", "C14", "silent", [(BU, NAMECHECK + "\n        // Empty qualifiers are the same as unset qualifiers.\n        self.parts.qualifiers.retain(|_, v| !v.is_empty());\n", "        // Empty qualifiers are the same as unset qualifiers.\n        self.parts.qualifiers.retain(|_, v| !v.is_empty());\n\n" + NAMECHECK)]),
    ("c12-stable-sort", "C12", "silent", [(WK, SORT, "        algorithms.sort_by(|a, b| a.0.cmp(&b.0));\n")]),
    ("c12-sort-by-key", "C12", "silent", [(WK, SORT, "        algorithms.sort_by_key(|a| a.0.clone());\n")]),
    ("c12-no-presizing", "C12", "silent", [(WK, "            HashMap::with_capacity(value.chars().filter(|c| *c == ',').count() + 1);\n", "            HashMap::with_capacity(0);\n")]),
    ("c12-hex-check-after-push", "C12", "silent", [(WK, "            v.extend(bytes.chars().map(|c| c.to_ascii_lowercase()));\n", "            v.extend(bytes.chars().map(|c| c.to_ascii_lowercase()));\n            debug_assert!(v.len() >= algorithm.len());\n")]),
    # ---------------------------------------------------------------- C14
    ("c14-name-check-before-hook", "C14", "caught", [(BU, FINISH + "\n" + NAMECHECK, NAMECHECK + "\n" + FINISH)]),
    ("c14-no-retain", "C14", "caught", [(BU, "        self.parts.qualifiers.retain(|_, v| !v.is_empty());\n", "")]),
    ("c14-finish-twice-in-parse", "C14", "caught", [(PA, "        GenericPurlBuilder { package_type, parts }.build()\n", "        let mut package_type = package_type;\n        package_type.finish(&mut parts)?;\n        GenericPurlBuilder { package_type, parts }.build()\n")]),
    ("c14-convert-before-validation", "C14", "caught", [(PA, "        if !is_valid_package_type(package_type) {\n            return Err(ParseError::InvalidPackageType.into());\n        }\n\n        let package_type = T::from_str(package_type)?;\n", "        let converted = T::from_str(package_type);\n        if !is_valid_package_type(package_type) {\n            return Err(ParseError::InvalidPackageType.into());\n        }\n        let package_type = converted?;\n")]),
    ("c14-lowercase-type-before-conversion", "C14", "caught", [(PA, "        let package_type = T::from_str(package_type)?;\n", "        let package_type = T::from_str(&package_type.to_ascii_lowercase())?;\n")]),
    ("c14-conversion-error-mapped", "C14", "caught", [(PA, "        let package_type = T::from_str(package_type)?;\n", "        let package_type =\n            T::from_str(package_type).map_err(|_| ParseError::InvalidPackageType)?;\n")]),
    ("c14-hook-error-swallowed-when-name-present", "C14", "caught", [(BU, FINISH, "        let finished = self.package_type.finish(&mut self.parts);\n        if self.parts.name.is_empty() {\n            finished?;\n        }\n")]),
    ("c14-hook-sees-copy-of-parts", "C14", "caught", [(BU, FINISH, "        let mut preview = self.parts.clone();\n        self.package_type.finish(&mut preview)?;\n        self.parts.name = preview.name;\n")]),
    ("c14-convert-twice", "C14", "caught", [(PA, "        let package_type = T::from_str(package_type)?;\n", "        T::from_str(package_type)?;\n        let package_type = T::from_str(package_type)?;\n")]),
    ("c14-finish-skipped-for-empty-qualifiers", "C14", "caught", [(BU, FINISH, "        if !self.parts.qualifiers.is_empty() || self.parts.version.is_empty() {\n            self.package_type.finish(&mut self.parts)?;\n        }\n")]),
    ("c14-extra-type-queries", "C14", "silent", [(BU, FINISH, "        let _ = self.package_type.package_type().len();\n        self.package_type.finish(&mut self.parts)?;\n        let _ = self.package_type.package_type().len();\n")]),
    ("c14-decode-name-before-conversion", "C14", "silent", [(PA, "        let package_type = T::from_str(package_type)?;\n", "        let _ = decode(s);\n        let package_type = T::from_str(package_type)?;\n")]),
    # ---------------------------------------------------------------- C16
    ("c16-ignore-error-type", "C16", "caught", [(FO, "            package_type,\n        )?;\n", "            package_type,\n        )\n        .ok();\n")]),
    ("c16-ignore-error-namespace", "C16", "caught", [(FO, "            write!(f, \"{}/\", utf8_percent_encode(namespace, PURL_PATH))?;\n", "            let _ = write!(f, \"{}/\", utf8_percent_encode(namespace, PURL_PATH));\n")]),
    ("c16-ignore-error-name", "C16", "caught", [(FO, "        write!(f, \"{}\", utf8_percent_encode(self.name(), PURL_PATH_SEGMENT))?;\n", "        let _ = write!(f, \"{}\", utf8_percent_encode(self.name(), PURL_PATH_SEGMENT));\n")]),
    ("c16-ignore-error-version", "C16", "caught", [(FO, "            write!(f, \"@{}\", utf8_percent_encode(version, PURL_PATH))?;\n", "            let _ = write!(f, \"@{}\", utf8_percent_encode(version, PURL_PATH));\n")]),
    ("c16-ignore-error-qualifiers", "C16", "caught", [(FO, "                    utf8_percent_encode(v, PURL_QUERY),\n                )?;\n", "                    utf8_percent_encode(v, PURL_QUERY),\n                )\n                .ok();\n")]),
    ("c16-ignore-error-subpath", "C16", "caught", [(FO, "            write!(f, \"#{}\", utf8_percent_encode(subpath, PURL_FRAGMENT))?;\n", "            let _ = write!(f, \"#{}\", utf8_percent_encode(subpath, PURL_FRAGMENT));\n")]),
    ("c16-serialize-as-newtype", "C16", "caught", [(FO, "            serializer.collect_str(self)\n", "            serializer.serialize_newtype_struct(\"Purl\", &self.to_string())\n")]),
    ("c16-serialize-as-seq-of-one", "C16", "caught", [(FO, "            serializer.collect_str(self)\n", "            use serde::ser::SerializeSeq;\n            let mut seq = serializer.serialize_seq(Some(1))?;\n            seq.serialize_element(&self.to_string())?;\n            seq.end()\n")]),
    ("c16-deserialize-trims", "C16", "caught", [(PA, "            GenericPurl::<T>::from_str(v).map_err(Error::custom)\n", "            GenericPurl::<T>::from_str(v.trim()).map_err(Error::custom)\n")]),
    ("c16-deserialize-accepts-seq", "C16", "caught", [(PA, "            deserializer.deserialize_str(PurlVisitor(PhantomData))\n", "            deserializer.deserialize_any(PurlVisitor(PhantomData))\n"), (PA, "    impl<T> Visitor<'_> for PurlVisitor<T>\n", "    impl<'de, T> Visitor<'de> for PurlVisitor<T>\n"), (PA, "        fn visit_str<E>(self, v: &str) -> Result<Self::Value, E>\n", "        fn visit_seq<A>(self, mut seq: A) -> Result<Self::Value, A::Error>\n        where\n            A: serde::de::SeqAccess<'de>,\n        {\n            let first: Option<String> = seq.next_element()?;\n            while seq.next_element::<serde::de::IgnoredAny>()?.is_some() {}\n            GenericPurl::<T>::from_str(&first.unwrap_or_default()).map_err(Error::custom)\n        }\n\n        fn visit_str<E>(self, v: &str) -> Result<Self::Value, E>\n")]),
    ("c16-deserialize-lowercases", "C16", "caught", [(PA, "            GenericPurl::<T>::from_str(v).map_err(Error::custom)\n", "            GenericPurl::<T>::from_str(&v.to_ascii_lowercase()).map_err(Error::custom)\n")]),
    ("c16-serialize-drops-subpath-when-long", "C16", "caught", [(FO, "            serializer.collect_str(self)\n", "            let text = self.to_string();\n            match text.split_once('#') {\n                Some((head, _)) if text.len() > 64 => serializer.serialize_str(head),\n                _ => serializer.serialize_str(&text),\n            }\n")]),
    ("c16-serialize-via-to-string", "C16", "silent", [(FO, "            serializer.collect_str(self)\n", "            serializer.serialize_str(&self.to_string())\n")]),
    ("c16-visit-string-forwarding", "C16", "silent", [(PA, "        fn visit_str<E>(self, v: &str) -> Result<Self::Value, E>\n", "        fn visit_string<E>(self, v: String) -> Result<Self::Value, E>\n        where\n            E: Error,\n        {\n            self.visit_str(&v)\n        }\n\n        fn visit_str<E>(self, v: &str) -> Result<Self::Value, E>\n")]),
    ("c16-display-in-more-pieces", "C16", "silent", [(FO, "        write!(f, \"{}\", utf8_percent_encode(self.name(), PURL_PATH_SEGMENT))?;\n", "        for piece in utf8_percent_encode(self.name(), PURL_PATH_SEGMENT) {\n            for c in piece.chars() {\n                write!(f, \"{}\", c)?;\n            }\n        }\n")]),
]


def run(*cmd, **kw):
    return subprocess.run(cmd, cwd=REPO, check=True, text=True, capture_output=True, **kw)


def main():
    if run("git", "status", "--porcelain").stdout.strip():
        sys.exit("/repo is not clean")
    os.makedirs(OUT, exist_ok=True)
    index = []
    for name, prop, expect, edits in MUTANTS:
        try:
            for path, old, new in edits:
                full = os.path.join(REPO, path)
                text = open(full).read()
                if text.count(old) != 1:
                    raise SystemExit(f"{name}: anchor occurs {text.count(old)} times in {path}")
                open(full, "w").write(text.replace(old, new))
            diff = run("git", "diff").stdout
            open(os.path.join(OUT, f"{name}.diff"), "w").write(diff)
            index.append(f"{name}\t{prop}\t{expect}")
        finally:
            run("git", "checkout", "--", ".")
    open(os.path.join(OUT, "INDEX.tsv"), "w").write("\n".join(index) + "\n")
    print(f"{len(index)} patches written to {OUT}")


if __name__ == "__main__":
    main()
