#!/usr/bin/env bash
# Confirm a seeded change independently, in a scratch worktree of /repo (never in /repo itself):
#   - the demonstration passes on the unmodified tree,
#   - with the patch the workspace test suite still passes (same count as the baseline),
#   - with the patch the crate still builds with --features serde,
#   - with the patch the demonstration fails.
#
#   tools/verify_seeded.sh /verif/seeded/<id> [...]
#
# Appends one line per change to /verif/seeded/VERIFIED.tsv. The worktree and its build output
# are removed at the end.
set -u
WT=/tmp/wt-verify-seeded
git -C /repo worktree remove --force "$WT" 2>/dev/null
git -C /repo worktree add --detach "$WT" HEAD >/dev/null 2>&1 || { echo "cannot create worktree" >&2; exit 2; }
trap 'git -C /repo worktree remove --force "$WT" 2>/dev/null; rm -rf "$WT"' EXIT
OUT=/verif/seeded/VERIFIED.tsv
[ -f "$OUT" ] || printf 'id\tdemo_without_patch\tsuite_with_patch\tserde_build_with_patch\tdemo_with_patch\tverdict\n' >"$OUT"
for dir in "$@"; do
    dir="$(realpath "$dir")"
    id="$(basename "$dir")"
    [ -f "$dir/patch.diff" ] && [ -f "$dir/demo.rs" ] || { echo "$id: incomplete" >&2; continue; }
    features=""
    grep -q "serde" "$dir/demo.rs" && features="--features serde"
    git -C "$WT" checkout -q -- . ; rm -rf "$WT/purl/tests"; mkdir -p "$WT/purl/tests"
    cp "$dir/demo.rs" "$WT/purl/tests/seeded_demo.rs"
    demo() { (cd "$WT" && cargo test -p purl $features --test seeded_demo --offline >"/tmp/seeded-demo-$1.log" 2>&1); }
    if demo clean; then without="pass"; else without="FAIL"; fi
    if git -C "$WT" apply "$dir/patch.diff"; then
        # The suite is run without the demonstration file, exactly as the repository has it.
        rm -f "$WT/purl/tests/seeded_demo.rs"
        if (cd "$WT" && cargo test --workspace --no-fail-fast --offline >/tmp/seeded-suite.log 2>&1); then
            n=$(grep -E "^test result: ok" /tmp/seeded-suite.log | awk '{s+=$4} END {print s}')
            suite="pass($n)"
        else
            suite="FAIL"
        fi
        cp "$dir/demo.rs" "$WT/purl/tests/seeded_demo.rs"
        if (cd "$WT" && cargo build -p purl --features serde --offline >/tmp/seeded-serde.log 2>&1); then serde="ok"; else serde="FAIL"; fi
        if demo patched; then with="pass"; else with="fail"; fi
    else
        suite="PATCH-DOES-NOT-APPLY"; serde="-"; with="-"
    fi
    verdict="REJECTED"
    case "$suite" in pass*) [ "$without" = "pass" ] && [ "$with" = "fail" ] && [ "$serde" = "ok" ] && verdict="confirmed";; esac
    printf '%s\t%s\t%s\t%s\t%s\t%s\n' "$id" "$without" "$suite" "$serde" "$with" "$verdict" | tee -a "$OUT"
done
