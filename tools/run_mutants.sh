#!/usr/bin/env bash
# Sensitivity / silence run: apply each patch of a directory to /repo, make sure the baseline
# tests still pass with the guard off, run the quick checks, undo the patch.
#
#   tools/run_mutants.sh [dir=/verif/mutants] [name-filter]
#
# Writes <dir>/RESULTS.tsv: name, property, expectation, baseline, C12, C14, C16, verdict.
# /repo must be clean; it is restored after every patch (also on interruption).
set -u
DIR="${1:-/verif/mutants}"
FILTER="${2:-}"
cd /verif || exit 2
[ -z "$(git -C /repo status --porcelain)" ] || { echo "/repo is not clean" >&2; exit 2; }
trap 'git -C /repo checkout -- . ; git -C /repo clean -fdq purl' EXIT
OUT="$DIR/RESULTS.tsv"
[ -n "$FILTER" ] || printf 'name\tproperty\texpectation\tbaseline\tC12\tC14\tC16\tverdict\n' >"$OUT"
while IFS=$'\t' read -r name prop expect; do
    [ -n "$name" ] || continue
    case "$name" in *"$FILTER"*) ;; *) continue;; esac
    patch="$DIR/$name.diff"
    [ -f "$patch" ] || patch="$DIR/$name/patch.diff"
    if ! git -C /repo apply "$patch"; then
        printf '%s\t%s\t%s\tPATCH-DOES-NOT-APPLY\t-\t-\t-\tSKIPPED\n' "$name" "$prop" "$expect" >>"$OUT"
        continue
    fi
    if [ -n "${SKIP_BASELINE:-}" ]; then
        baseline="${SKIP_BASELINE}"
    elif (cd /repo && cargo test --workspace --no-fail-fast --offline >/tmp/mutant-baseline.log 2>&1); then
        passed=$(grep -E "^test result: ok" /tmp/mutant-baseline.log | awk '{s+=$4} END {print s}')
        baseline="pass($passed)"
    else
        baseline="FAIL"
    fi
    row=""
    caught=0
    for id in C12 C14 C16; do
        out=$(./check "$id" --tier quick 2>&1); rc=$?
        code=$(printf '%s\n' "$out" | grep -oE "\] C[0-9]+\.[a-z_]+" | head -1 | cut -c3-)
        case $rc in
            0) cell="held";;
            1) cell="VIOLATION:$code"; caught=1;;
            *) cell="exit$rc";;
        esac
        row="$row\t$cell"
    done
    git -C /repo checkout -- .
    if [ "$baseline" = "FAIL" ]; then verdict="INVALID-MUTANT(baseline fails)";
    elif printf "$row" | grep -q "exit2"; then verdict="INVALID-MUTANT(does not build with serde + hooks, or harness error)";
    elif [ "$expect" = "caught" ] && [ $caught -eq 1 ]; then verdict="ok-caught";
    elif [ "$expect" = "caught" ]; then verdict="MISSED";
    elif [ $caught -eq 1 ]; then verdict="FALSE-ALARM";
    else verdict="ok-silent"; fi
    printf "%s\t%s\t%s\t%s$row\t%s\n" "$name" "$prop" "$expect" "$baseline" "$verdict" >>"$OUT"
    printf "%s\t%s$row\t%s\n" "$name" "$baseline" "$verdict"
done <"$DIR/INDEX.tsv"
rm -f /verif/replays/*.json
