#!/usr/bin/env python3
"""Write /verif/seeded/<id>/meta.json from the descriptions below plus the measured results in
seeded/VERIFIED.tsv (independent confirmation in a scratch worktree, tools/verify_seeded.sh) and
seeded/RESULTS.tsv (quick checks against the change applied to /repo, tools/run_mutants.sh)."""
import csv
import json
import os

ROOT = "/verif/seeded"

DESC = {
    "c12a-1": ("C12", "Hand-rolled 'small input' sort in TryFrom<Checksum> for SmallString: the three-entry branch omits the last compare-exchange.",
               "exactly three entries AND a hash-map iteration order that yields the smallest algorithm last (about a third of fresh maps); 1, 2 and >= 4 entries are unaffected"),
    "c12a-2": ("C12", "Only borrowed (parsed) hex is folded to lower case when writing the text; owned values are appended as stored.",
               "a value entered through insert_raw with an upper-case hex digit, observed directly through SmallString::try_from / try_insert_typed (build() and from_str re-parse and repair it)"),
    "c12a-3": ("C12", "Checksum::try_from(&str) splits an entry at the first ':' instead of the last.",
               "an algorithm name containing ':' (e.g. urn:sha1)"),
    "c12b-1": ("C12", "Same idea as c12a-1, written independently: two compare-and-swaps for three entries.",
               "exactly three entries and one of the two unlucky iteration orders"),
    "c12b-2": ("C12", "insert_raw's exact-spelling fast path overwrites the stored value in place (replace_range) when the old value is at least as long.",
               "a multi-step history: insert, then insert again under exactly the stored lower-case spelling with a strictly shorter value; the tail of the old value survives"),
    "c12b-3": ("C12", "Sort comparator rewritten as a hand-written case-insensitive byte comparison that returns Equal when one name is a prefix of the other.",
               "two algorithm names in prefix relation (sha2/sha256, b/ba) AND a hash-map iteration order that puts the longer one first"),
    "c14a-1": ("C14", "The parser retries a failed type conversion with the lower-cased type string.",
               "a type with an upper-case letter AND a user conversion that fails on the spelling as written"),
    "c14a-2": ("C14", "build() checks for an empty name both before and after the hook (fail-fast helper).",
               "an empty name on entry to build() together with a hook that counts, fails or supplies a name"),
    "c14a-3": ("C14", "'Already canonical' fast path in build(): a checksum that looks canonical skips parse-and-reserialise, but the predicate forgets the even-digit-count rule.",
               "a checksum that is malformed only by an odd number of hex digits and otherwise spelled canonically (sha1:abc)"),
    "c14b-1": ("C14", "Same idea as c14a-1, written independently.",
               "an upper-case letter in the type substring together with a conversion that fails on that spelling"),
    "c14b-2": ("C14", "Same idea as c14a-2, written independently (require_name helper called before and after finish).",
               "an empty name on entry together with a hook that counts its calls, fails, or supplies a name"),
    "c14b-3": ("C14", "from_str calls a new build_parsed() that skips the empty-qualifier pass 'because the parser never stores empty values' - but the skipped pass sits after the hook.",
               "the parse (or deserialize) entry point together with a hook that inserts an empty value or blanks an existing one; the builder path is fine"),
    "c16a-1": ("C16", "Serialize fast path that hand-builds the string when all components are 'plain'; the predicate wrongly treats '/' in the name as plain.",
               "a name containing a literal '/' (only reachable via %2F or the builder), no qualifiers, no subpath, nothing else escapable; to_string() is untouched"),
    "c16a-2": ("C16", "Deserialize keeps a thread-local memo of the last successfully deserialised string, keyed on the string but not on the type parameter.",
               "a sequence on one thread: the same string deserialised as Purl and then as GenericPurl<String> (or the reverse) for a type whose shapes differ (pypi, nuget, maven); no single call shows it"),
    "c16a-3": ("C16", "The Deserialize visitor is funnelled through a new visit_bytes, so byte-string values are accepted.",
               "a deserializer that presents a bytes value (serde's BytesDeserializer, CBOR/MessagePack-style formats); JSON can never deliver one"),
    "c16b-1": ("C16", "Display's qualifier loop became an iterator chain ending in .last(): only the last qualifier's fmt::Result is kept.",
               ">= 2 qualifiers, a streaming serializer, and a sink that fails once inside a non-last qualifier and then accepts writes again"),
    "c16b-2": ("C16", "Deserialize replaced by String::deserialize + from_str; serde's String visitor also accepts byte strings.",
               "a deserializer with a bytes data type carrying UTF-8 that spells a PURL"),
    "c16b-3": ("C16", "'No-alloc' Serialize formats into a 256-byte stack buffer; an ignored write! result plus an 'it fit' check accept a truncated prefix.",
               "a canonical string longer than 256 bytes; output is cut at a Display piece boundary"),
    "r2c12-1": ("C12", "copy_as_lowercase's non-ASCII branch uses str::to_lowercase() (context-sensitive: word-final capital sigma becomes the final form) instead of lower-casing letter by letter.",
                "an algorithm name with a capital sigma in word-final position given in upper case, together with its lower-case spelling: the two case variants become two entries"),
    "r2c12-2": ("C12", "The checksum text is assembled in a thread-local scratch buffer that is cleared only after a successful conversion; the early return for invalid hex leaves entries behind.",
                "hidden state + a fault at a particular point: a refused conversion in which a valid entry sorts before the invalid one, then any later conversion on the same thread"),
    "r2c12-3": ("C12", "build() canonicalises the checksum before the finishing hook; only the empty-qualifier removal is repeated after it.",
                "a user-supplied shape whose hook writes or rewrites the checksum as non-canonical text (the built-in shapes never do)"),
    "r2c12-4": ("C12", "Checksum::try_from(&str) trims leading whitespace of every comma-separated item.",
                "an algorithm name that starts with whitespace (blank, tab, U+3000) plus a path that re-parses the text form"),
    "r2c14-1": ("C14", "is_valid_package_type 'optimised' to a byte range '+'..='.', which also contains ','.",
                "a comma in the type substring; every other invalid character is still refused"),
    "r2c14-2": ("C14", "Same idea as r2c12-2, written independently: thread-local checksum text buffer not cleared on refusal.",
                "two steps on one thread: a refusal where a well-formed algorithm sorts before the malformed one, then any later build or parse carrying a checksum"),
    "r2c14-3": ("C14", "The post-hook generic checks return a 'changed' flag; when something changed, finish is called a second time.",
                "something for the generic checks to do (an empty-valued qualifier or a non-canonical checksum) and a hook that counts, is not idempotent, or fails the second time"),
    "r2c14-4": ("C14", "Qualifiers gets a private 'normalized' flag that build() uses to skip empties-removal and checksum canonicalisation; every write path resets it except IndexMut.",
                "a builder obtained via into_builder() from a built PURL with no qualifier write in between, and a hook that writes through parts.qualifiers[key] = ..."),
    "r2c16-1": ("C16", "Serialize formats into a thread-local String, calls serialize_str and only then clears the buffer; a serializer error returns early and leaves the text behind.",
                "a failed serialisation (failing writer) followed by another serialisation on the same thread"),
    "r2c16-2": ("C16", "The Deserialize visitor implements only visit_borrowed_str and visit_string; the transient visit_str is gone.",
                "a deserializer that delivers the string transiently: from_reader, any JSON string containing an escape, serde's StrDeserializer"),
    "r2c16-3": ("C16", "A hand-written deserialize_in_place moves the old value's Qualifiers into the new parts 'to keep the allocation' and never clears them.",
                "the in-place entry point (directly or through Vec::deserialize_in_place) and a previous value that has qualifiers"),
    "r2c16-4": ("C16", "visit_str runs a fail-fast T::from_str on the text between 'pkg:' and the first '/', without trimming the leading slashes the parser ignores.",
                "a T whose FromStr rejects the empty string (Purl) and the legal pkg:/... or pkg://... form"),
    "r3c12-1": ("C12", "build() merges 'drop empty qualifiers' and 'find and normalise the checksum' into one retain pass; the index counts visited, not kept, elements.",
                "the builder path with an empty-valued qualifier whose key sorts before 'checksum' (with_qualifier(\"arch\", \"\")): normalisation is silently skipped, or build() fails if another qualifier follows"),
    "r3c12-2": ("C12", "Qualifiers::try_insert_typed stores the converted value with entry(KEY).or_insert(value) instead of insert.",
                "an order of two calls: a checksum is already present (with_qualifier(\"checksum\", ..), an earlier typed set, or into_builder() of a parsed PURL) when try_with_typed_qualifier sets a new one - the new one is silently ignored"),
    "r3c12-3": ("C12", "Entries are rendered to 'algorithm:hex' first and the rendered strings are sorted.",
                "one algorithm name is a proper prefix of another and the longer one continues with a character below ':' (digit, '-', '.', space)"),
    "r3c12-4": ("C12", "Checksum::try_from(&str) refuses an entry whose algorithm name is empty; the writer still produces it.",
                "an entry whose algorithm is the empty string"),
    "r3c14-1": ("C14", "The type substring is percent-decoded before validation and conversion.",
                "a %XX escape in the type position that decodes to legal type characters (pkg:%74ype/name)"),
    "r3c14-2": ("C14", "T::from_str is still called once at the same place, but its '?' moved to the end, after version, namespace and name are decoded.",
                "a failing conversion combined with a malformed escape in the name, version or namespace; either alone behaves as before"),
    "r3c14-3": ("C14", "The checksum's position is looked up before the empty qualifiers are removed and used afterwards.",
                "an empty-valued qualifier sorting at or before 'checksum', together with a checksum, at the moment the hook returns"),
    "r3c14-4": ("C14", "build() normalises namespace and subpath after the hook (drops empty / '.' / '..' segments) 'for round-trip stability'.",
                "a hook or builder that writes a namespace with a leading, trailing or doubled '/', or a subpath with such a slash or a dot segment"),
    "r3c16-1": ("C16", "Deserialize calls deserialize_any instead of deserialize_str.",
                "a data format that is not self-describing (bincode / postcard style) and therefore refuses deserialize_any; JSON and serde's value deserializers see no difference"),
    "r3c16-2": ("C16", "A scheme pre-check in visit_str slices the input at byte 4 (&v[..4]).",
                "a string of at least 4 bytes in which a multi-byte character straddles byte 4: it panics instead of being refused"),
    "r3c16-3": ("C16", "lowercase_in_place rewritten with find(is_uppercase): the first upper-case character decides the mode, so name lower-casing is no longer idempotent.",
                "Purl with a nuget name (or a pypi name without '-', '_', '.') that has an ASCII upper-case letter before a non-ASCII one: the value changes on a JSON round trip"),
    "r3c16-4": ("C16", "The visitor parses as GenericPurl<String> and then only resolves the type, so PackageType::finish never runs when deserialising.",
                "Purl with a non-canonical or type-invalid input string (maven without namespace, unnormalised nuget / pypi names)"),
    "r4c12-1": ("C12", "Qualifiers::remove uses swap_remove on the sorted vector that every look-up binary-searches.",
                ">= 3 qualifiers, 'checksum' sorting late, and a qualifier that is not one of the last two removed before build(): build() no longer finds the checksum, so it is never canonicalised and get(\"checksum\") returns None"),
    "r4c12-2": ("C12", "decode_qualifiers splits 'k=v' with rsplit_once('=').",
                "an algorithm name containing '=' spelled literally (also in the crate's own to_string() output): the PURL is refused while the %3D spelling still works"),
    "r4c12-3": ("C12", "Checksum::insert_raw (and so insert) treats an empty hex value as 'unset' and calls the case-sensitive remove.",
                "an entry with empty bytes inserted through the typed API: it disappears from the text form and from get; insert(\"MD5\", []) leaves an old md5 value in place"),
    "r4c12-4": ("C12", "copy_as_lowercase's ASCII fast path breaks too early: from the first non-ASCII byte on only non-ASCII characters are checked.",
                "an ASCII capital that first appears after a non-ASCII character, in a name without non-ASCII capitals (résumé-SHA, ßX, 漢字Sum)"),
    "r4c14-1": ("C14", "Qualifiers::retain became an index loop that still advances the index after remove(index).",
                "two empty-valued qualifiers that are neighbours in key order after the hook: the second one survives"),
    "r4c14-2": ("C14", "Same as r4c12-1, written independently: Qualifiers::remove uses swap_remove.",
                ">= 3 qualifiers and a hook or builder call that removes one that is neither last nor last-but-one"),
    "r4c14-3": ("C14", "copy_as_lowercase stops at the first cased character.",
                "a checksum algorithm name with an ASCII upper-case letter before a non-ASCII cased letter (GOST-Э)"),
    "r4c14-4": ("C14", "Qualifier key look-up folds case with b | 0x20 (which maps '_' to 0x7F), and check_qualifier_key treats any key without upper-case letters as Lower, which hides it for keys like repository_url.",
                "a key spelling with both an upper-case letter and '_', used on an entry that already exists: insert(\"Download_URL\", v) adds a second download_url entry"),
    "r4c16-1": ("C16", "Same as r4c12-1, written independently: Qualifiers::remove uses swap_remove.",
                "a builder-made value with >= 3 qualifiers from which one that is not among the last two was removed: it serialises with unsorted keys and deserialises to a sorted, unequal value"),
    "r4c16-2": ("C16", "Same as r4c12-2, written independently: decode_qualifiers splits at the last '='.",
                "a qualifier value containing '=': the serialised form of a valid PURL is refused"),
    "r4c16-3": ("C16", "decode_subpath's filter 'simplified' to segment.trim_matches('.').is_empty(), which also drops segments of three or more dots.",
                "a subpath segment consisting only of dots (Go's cmd/...)"),
    "r4c16-4": ("C16", "'Already sorted, so append' fast path in decode_qualifiers that compares the raw input keys although the list is ordered by lower-cased keys.",
                "an input in ascending byte order where an upper-case key precedes a key that sorts before its lower-cased form (?Distro=..&arch=..): the parsed value has unsorted (or duplicate) qualifiers and does not survive its own serialised form"),
    "r5c12-1": ("C12", "derive(Clone) on Checksum became a manual impl whose 'allocation-reusing' clone_from overwrites or inserts the source's entries but never removes algorithms the target had and the source lacks.",
                "a call sequence: target.clone_from(&source) where target already holds a name that source does not; probability 0 for fresh attempts (it also needed the hook wrapper to offer std's inherent methods, hook commit 15f5dd0)"),
    "r5c12-2": ("C12", "TryFrom<Checksum> for SmallString validates and lower-cases hex in hash-map iteration order before sorting; the 'empty value, nothing to do' shortcut uses break for continue.",
                "one entry with empty bytes, another with upper-case raw hex, and a hash order that puts the empty one first (k/(k+1) of the orders)"),
    "r5c12-3": ("C12", "The text writer sorts a permutation of u8 indices: (0..len as u8).",
                "256 or more entries: only n % 256 of them, chosen by hash order, are rendered"),
    "r5c12-4": ("C12", "OccupiedEntry::remove / remove_entry use Vec::swap_remove, leaving the sorted qualifier list unsorted.",
                "removing through the Entry API a qualifier that is neither last nor second-to-last before build(): the binary search for 'checksum' misses and a non-canonical checksum survives"),
    "r5c14-1": ("C14", "The serde visitor parses v.trim() a second time when from_str(v) fails and v has leading or trailing whitespace.",
                "the serde entry point, padded text, and a conversion that succeeds with a hook that fails on the first attempt (or a conversion that fails)"),
    "r5c14-2": ("C14", "Same as r4c14-1, written independently: index-walking Qualifiers::retain.",
                "two empty-valued qualifiers that are neighbours in sorted key order"),
    "r5c14-3": ("C14", "build() reads a has_qualifiers flag before the hook; empty-value removal and checksum canonicalise-or-refuse run only if it was set.",
                "a hook that inserts qualifiers and an input with no qualifier of its own"),
    "r5c14-4": ("C14", "is_valid_package_type uses is_alphanumeric instead of is_ascii_alphanumeric.",
                "a non-ASCII letter or digit in the type (Kelvin sign, full-width letters) plus a tolerant conversion"),
    "r5c16-1": ("C16", "Display writes through a 64-byte coalescing adapter with an explicit finish() plus a flush-and-discard Drop; the subpath arm ends without finish().",
                "a PURL with a subpath and a sink that fails on the last chunk: success is reported with a truncated string"),
    "r5c16-2": ("C16", "GenericPurl gains a OnceLock text cache (ignored by Eq/Ord/Hash, copied by Clone); Display tees its output into it and stores the copy even when the write failed.",
                "a sequence: the very first formatting of a value fails part-way, then every later serialize / to_string of that value returns the truncated prefix as success"),
    "r5c16-3": ("C16", "Serialize hands the serializer a single-use draining Display (an iterator of encoded pieces in a RefCell).",
                "a serializer that formats the value more than once (measure-then-write, overflow-and-retry): the second pass yields an empty string or only the tail"),
    "r5c16-4": ("C16", "A one-piece fast path for PURLs of at most 128 bytes conflates 'did not fit' with 'the sink refused the write' and streams the whole PURL again after a failed write.",
                "a transient sink error after partial acceptance: success is reported with the accepted prefix followed by the whole PURL"),
    "r6c12-1": ("C12", "Qualifiers::search compares keys that are not all-lower-case through an upper-folding comparison although the list is ordered by lower case ('_' sits between the two cases).",
                "a sibling key with '_' at the first position where it differs from 'checksum', combined with a particular order or a capitalised CHECKSUM: build() leaves the raw text and get(\"checksum\") returns None"),
    "r6c12-2": ("C12", "decode_qualifiers percent-decodes the whole query once, before splitting at '&'.",
                "a %26 inside the checksum value, i.e. an algorithm name containing '&': the library's own output no longer parses back"),
    "r6c12-3": ("C12", "copy_as_lowercase keeps only the first character of a multi-character lower-case mapping.",
                "U+0130 (capital I with dot), the only character whose lower-case mapping has two characters: it is stored as 'i' and collides with a genuine i / I entry"),
    "r6c12-4": ("C12", "Qualifiers::try_insert_typed returns early when the text form is empty ('empty means unset, nothing to store').",
                "a history: the target already holds a checksum and the Checksum being set has no entries (parse, get typed, remove the only algorithm, set it back): the old checksum silently stays"),
    "r6c14-1": ("C14", "build() merges empty-qualifier removal and an 'is there a checksum?' test into one retain pass; the flag is assigned with = instead of |=.",
                "a non-empty qualifier whose key sorts after 'checksum' (vcs_url, repository_url): a hook-written checksum is then neither canonicalised nor refused"),
    "r6c14-2": ("C14", "Qualifiers::search scans linearly up to 8 entries (correct) and binary-searches raw bytes above that, forgetting that the searched key may contain capitals.",
                "more than 8 qualifiers AND a key spelled with a capital letter: a hook's insert(\"Arch\", ..) creates a duplicate, mis-sorted entry"),
    "r6c14-3": ("C14", "Empty removal and checksum canonicalisation fused into one retain_mut pass that canonicalises before the emptiness test.",
                "a hook (or with_qualifier(\"checksum\", \"\")) that blanks the checksum: InvalidQualifier instead of the qualifier being unset"),
    "r6c14-4": ("C14", "Checksum::try_from(&str) uses split_terminator(',') instead of split(',').",
                "a checksum ending in exactly one stray ',': it is accepted and reported without the comma - a value the hook never wrote"),
    "r6c16-1": ("C16", "For formats that are not human readable, Serialize emits the string without the constant 'pkg:' prefix and Deserialize puts it back (two cooperating sites).",
                "a bincode-like format (is_human_readable() == false); serde_json and serde's value deserializers are unaffected"),
    "r6c16-2": ("C16", "Same idea as r3c12-1, written independently: build() records the checksum position while dropping empty qualifiers.",
                "a builder-made value with an empty-valued qualifier sorting before 'checksum': it serialises with a non-canonical or invalid checksum and does not come back equal"),
    "r6c16-3": ("C16", "The spec rule 'the type cannot start with a number' is enforced only in from_str; build()/finish and Display still accept such types.",
                "a builder-made GenericPurl<String> whose type starts with a digit (7zip): its canonical string is refused on deserialisation"),
    "r6c16-4": ("C16", "visit_str refuses strings longer than 65535 bytes with invalid_length; FromStr and Serialize have no such limit.",
                "a PURL string of more than 64 KiB"),
    "r7c12-1": ("C12", "decode() first rejects any '%' not followed by two hex digits, but its digit test accepts only 0-9A-F.",
                "a percent-escape containing a lower-case a-f (%3a, %2c): an equivalent spelling is refused"),
    "r7c12-2": ("C12", "decode_qualifiers also accepts ';' between qualifiers; the formatter does not escape it.",
                "a ';' in the checksum value (an algorithm name such as sha1;v2): the printed PURL is mis-split when parsed again"),
    "r7c12-3": ("C12", "Checksum text: algorithm names are percent-decoded when read, but '%' is not escaped when written (two cooperating sites).",
                "an algorithm name containing '%' followed by two hex digits (crc%32 is read back as crc2)"),
    "r7c12-4": ("C12", "build() canonicalises the checksum before dropping empty qualifiers (the two steps swapped).",
                "an empty checksum reaching build() through the builder (with_qualifier(\"checksum\", \"\"), a typed empty Checksum, a hook that blanks it): InvalidQualifier instead of the qualifier being dropped"),
    "r7c14-1": ("C14", "GenericPurl::new no longer goes through build(): it calls the hook once, refuses an empty name and constructs the PURL directly.",
                "the new() entry point plus a hook that inserts an empty qualifier or a non-canonical / malformed checksum"),
    "r7c14-2": ("C14", "Same idea as r3c12-3, written independently: checksum entries sorted as finished 'algorithm:hex' strings.",
                "two algorithm names where one is a prefix of the other and the longer continues with a digit, '-' or '.'"),
    "r7c14-3": ("C14", "Hex validation via u8::from_str_radix on byte pairs, which accepts a leading '+'.",
                "an even-length hash with a '+' at an even offset directly before a hex digit (sha1:+f): accepted instead of refused"),
    "r7c14-4": ("C14", "The even-length check is applied to the summed hex length instead of per hash.",
                "an even number of odd-length hashes in one checksum (md5:0,sha1:1)"),
    "r7c16-1": ("C16", "The namespace-segment check 'a decoded segment may not contain /' was copied onto the name.",
                "a name containing '/' (builder, or %2F in the input): the formatter writes %2F, which both Deserialize and from_str then refuse"),
    "r7c16-2": ("C16", "decode_subpath and decode_namespace merged into one helper that lost the check refusing a segment that decodes to '.' or '..'.",
                "a dots-only subpath segment with at least one %2E: pkg:generic/name#a/%2E/b parses with subpath a/./b, which serialises as #a/./b and reads back as a/b"),
    "r7c16-3": ("C16", "with_qualifier removes the qualifier when the value is empty and build() no longer runs the retain pass (two cooperating edits).",
                "any route that bypasses with_qualifier (typed setters, direct use of builder.parts.qualifiers, blanking after into_builder()): the PURL serialises as ?repository_url= and deserialises without it"),
    "r7c16-4": ("C16", "A trailing-slash leniency (trim_end_matches('/')) runs before the version is split off.",
                "a version ending in '/': pkg:generic/name@1.0%2F serialises as @1.0/ and reads back as 1.0"),
    "r8c12-1": ("C12", "The 'a decoded piece must not contain /' check for namespace and subpath was factored into a shared helper that qualifier values now go through too.",
                "a '/' in an algorithm name that is percent-escaped in a parsed PURL (checksum=SHA%2F1:ABCD is refused, SHA/1 still parses)"),
    "r8c12-2": ("C12", "The mixed-ASCII-case branch of copy_as_lowercase sets bit 0x20 on every ASCII character instead of make_ascii_lowercase().",
                "a name with both an ASCII upper-case letter and one of @ [ \\ ] ^ _ (SHA_256 becomes sha<DEL>256)"),
    "r8c12-3": ("C12", "The checksum writer refuses md5 / sha1 / sha224 / sha256 / sha384 / sha512 entries whose value is not the real digest length (a well-meant feature).",
                "exactly one of those six names together with a non-standard length - 'bytes: any byte string including empty'"),
    "r8c12-4": ("C12", "'Natural' ordering: the sort comparator compares runs of ASCII digits by numeric value.",
                "two names that share a prefix and then have digit runs that order differently as numbers than as strings (sha3 before sha256)"),
    "r8c14-1": ("C14", "Same idea as r2c12-1, written independently: str::to_lowercase (final sigma) for checksum algorithm names.",
                "a non-ASCII algorithm name with a capital sigma at the end of a word after a cased letter"),
    "r8c14-2": ("C14", "The '?' on the result of finish is deferred until after the empty-name check; the hook is still called exactly once.",
                "the hook fails while the name is empty (pkg:type/, or the hook cleared the name and then failed): MissingRequiredField masks the hook's own error"),
    "r8c14-3": ("C14", "retain(|_, v| !v.is_empty()) became retain(|_, v| !v.trim().is_empty()).",
                "a hook-written or parsed qualifier value consisting only of white space: it disappears from the reported and printed qualifiers"),
    "r8c14-4": ("C14", "Display writes namespace and subpath segment by segment, skipping empty segments (and '.' / '..' in the subpath); the accessors still return what the hook wrote.",
                "a hook or builder value with a leading, trailing or doubled '/', or dot segments in the subpath - and a check of the printed form that does not go through the library's own formatter or parser"),
    "r8c16-1": ("C16", "Same idea as r6c12-2, written independently: the query is percent-decoded before it is split.",
                "a qualifier value containing '&'"),
    "r8c16-2": ("C16", "The formatter keeps 'already escaped' sequences in the namespace: a '%' followed by two hex digits is copied verbatim.",
                "a literal %XX in the namespace text (%40acme comes back as @acme)"),
    "r8c16-3": ("C16", "namespace() / version() / subpath() share a helper that tests trim().is_empty(); Display relies on them while the stored field and PartialEq keep the blank text.",
                "a namespace, version or subpath that is non-empty but only white space"),
    "r8c16-4": ("C16", "Same idea as r2c14-4, written independently: a checksum_is_canonical flag on Qualifiers that IndexMut forgets to reset survives into_builder().",
                "build or parse a PURL with a checksum, into_builder(), replace the value through parts.qualifiers[\"checksum\"] = ..., build()"),
    "r9c12-1": ("C12", "Hex is lower-cased at storage time (when parsing and in the miss branch of insert_raw) instead of in the text writer; the hit branch of insert_raw still stores the caller's string untouched.",
                "an algorithm already present is set again with insert_raw under exactly its lower-case name, with upper-case A-F in the hex"),
    "r9c12-2": ("C12", "The parser builds the qualifier list in bulk, sorted by the raw key (before the keys are lower-cased).",
                "parser path, at least two qualifiers, key case disagreeing between raw and lower-cased order (Checksum=...&arch=x): build() does not find 'checksum', so it is not canonicalised and the typed accessor returns None"),
    "r9c12-3": ("C12", "Display writes the checksum value without percent-encoding ('a normalised checksum needs no escaping').",
                "an algorithm name containing '&', '%', '#' or '?', followed by to_string() / serde and a re-parse"),
    "r9c12-4": ("C12", "Checksum::insert undoes 'double encoding': if the bytes are a non-empty even-length string of ASCII hex digits, that inner string is stored instead of its hex encoding.",
                "insert with byte strings made entirely of the characters 0-9a-fA-F and of even length (484 of the 65536 two-byte values)"),
    "r9c14-1": ("C14", "Display folds the namespace and name writes into one match; in the Some(namespace) arm the name is encoded with the namespace's escape set, so '/' in the name is not escaped.",
                "a non-empty namespace AND a '/' in the name the hook wrote: the PURL reports name left/right but prints pkg:t/group/left/right"),
    "r9c14-2": ("C14", "build() calls a new map-free Checksum::canonicalize that tests for duplicate algorithms with windows(2) before sorting.",
                "a repeated algorithm whose two occurrences are not neighbours in the text (sha1:aa,md5:cc,SHA1:bb): accepted and reported as md5:cc,sha1:aa,sha1:bb - neither canonicalised nor refused"),
    "r9c14-3": ("C14", "A trailing-slash leniency in the post-hook name check: when the name is empty, the last namespace segment becomes the name.",
                "a hook that clears the name plus a non-empty namespace"),
    "r9c14-4": ("C14", "Same idea as r9c12-3, written independently: the canonical checksum value is printed without percent-encoding.",
                "the checksum qualifier and an algorithm name containing '&', '#', space, '+' or '%'"),
    "r10c12-1": ("C12", "The parser deletes raw TAB / LF / CR from the input 'like the WHATWG URL parser'.",
                "a control-whitespace character in an algorithm name, spelled raw in parsed text (an unescaped spelling of %09 / %0A / %0D)"),
    "r10c12-2": ("C12", "After the sort the writer dedups on the wrong tuple field: dedup_by(|a, b| a.1 == b.1) compares the hex instead of the name.",
                "two entries that are neighbours in the sorted text and carry byte-identical hex (two empty digests included)"),
    "r10c12-3": ("C12", "SHA alias folding: algorithm names matching sha-<digits> are rewritten to sha<digits> when parsing and in insert_raw.",
                "a name that is exactly 'sha-' followed by digits: sha-256 comes back as sha256, and the two overwrite each other"),
    "r10c12-4": ("C12", "ASCII-only guard in the parser: if !s.is_ascii() return InvalidEscape.",
                "a non-ASCII algorithm name parsed from unescaped text (PRÜF); the escaped spelling and the builder still work"),
    "r10c14-1": ("C14", "The parser validates a 'checksum' qualifier eagerly: one that is malformed as written fails with InvalidQualifier during parsing, before conversion and hook; build() is untouched.",
                "the parse path, a malformed checksum in the input, and a user type whose hook would have repaired or dropped it (or whose conversion / hook would have failed). NOT reported by C14, by decision: the statement bounds the calls from above ('at most once per parse') and fixes the order inside build(); an additional refusal before the hook contradicts none of its clauses, and an oracle that demanded the hook be reached would raise a false alarm on a parser that validates early (see DESIGN.md 4.2, 'Not asserted')"),
    "r10c14-2": ("C14", "The pypi / nuget name rules move into a helper keyed on the type *string* that build() applies after the hook.",
                "a user type whose package_type() string is pypi or nuget: its hook-written name is lower-cased (and dash-folded)"),
    "r10c14-3": ("C14", "Serialize fast path that hand-assembles the string for simple PURLs and forgets to escape the version.",
                "serde only: no namespace, qualifiers or subpath, an unreserved name, and a version that needs escaping (caught by C16, whose business it is)"),
    "r10c14-4": ("C14", "Case-insensitive scheme via lower-casing the whole input when strip_prefix(\"pkg:\") misses.",
                "a non-lower-case scheme plus an upper-case letter in the type: for PKG:Corp/Name the conversion receives \"corp\""),
    "r11c16a-1": ("C16", "decode_namespace and decode_subpath decode each percent-escaped byte as a character of its own.",
                "a non-ASCII character in the namespace or subpath (%C3%A9): it deserialises as mojibake and the PURL does not survive the round trip"),
    "r11c16a-2": ("C16", "from_str refuses any literal character outside the URL code points.",
                "a canonical string that contains | ^ [ ] \\ anywhere, ` { } in a qualifier value, or { } in the subpath: the library's own output is refused on deserialise"),
    "r11c16b-1": ("C16", "Display writes the package type with fmt::Display::fmt(&*package_type, f) instead of write!, so the caller's width and precision apply to the type.",
                "serialising into a formatter that carries flags (serde's Serializer for &mut fmt::Formatter inside format!(\"{:>12.2}\", ..)): pkg:ge/name or padded types; to_string() and serde_json are unaffected"),
    "r11c16b-2": ("C16", "Serialize gained a guard that refuses PURLs whose namespace or subpath is 'not normalised'; its helper applies the subpath dot rule to the namespace too.",
                "a parser-accepted PURL with a '..' or '.' namespace segment (pkg:generic/a/../b/name): serialisation fails while to_string() works"),
    "r12c12-1": ("C12", "'Length first' comparator: the text writer sorts the entries by name length and only then by name.",
                 "two algorithm names of different length where the longer one sorts first (blake2b / md5, sha3-256 / sha512); the md5 / sha1 / sha256 / sha512 family is ordered the same either way"),
    "r12c12-2": ("C12", "Hex is lower-cased block-wise with chunks_exact(8); the remainder() is appended as stored.",
                 "a digest whose hex length is not a multiple of 8 and an upper-case A-F among the trailing digits, entered through text, with_qualifier or insert_raw"),
    "r12c12-3": ("C12", "Checksum::try_from(&str) copies the name and calls lowercase_in_place instead of copy_as_lowercase; that helper decides with is_uppercase(), so titlecase letters stay.",
                 "an algorithm name with a titlecase letter (U+01C5 ...) and no other non-ASCII upper-case letter, arriving through the TEXT path (PURL string, with_qualifier, Checksum::try_from); insert / insert_raw still lower-case it"),
    "r12c14-1": ("C14", "Same idea as r10c12-1, written independently for C14: the parser strips TAB / CR / LF from the input and parses again.",
                 "a tab or newline in or next to the type: the user's conversion receives \"type\" for pkg:ty\\tpe/name instead of the input being refused without a conversion"),
    "r12c14-2": ("C14", "The checksum text writer skips algorithms whose digest is empty.",
                 "an 'algorithm:' entry with an empty hex string (legal): a hook-written checksum=SHA1: becomes the empty text, re-inserted after build() has dropped empty qualifiers, and the PURL prints ?checksum="),
    "r12c14-3": ("C14", "Checksum::try_from(&str) trims each comma-separated entry before checking it.",
                 "white space at the start or end of a checksum entry (sha1:ab%20): a malformed checksum is accepted as sha1:ab, whether the hook, the builder or the parser supplied it"),
    "r12c16-1": ("C16", "Qualifiers gains a text_len byte counter kept up to date by insert / remove / retain / clear / Entry, inside the derived PartialEq / Hash / Ord.",
                 "a builder-made PURL one of whose qualifier values was overwritten IN PLACE with a value of another length through a handed-out &mut SmallString (IndexMut, get_mut, iter_mut, and_modify, ...): text identical, but deserialised != original"),
    "r12c16-2": ("C16", "The checksum canonicalisation block moves from build() to the end of the parser's decode_qualifiers.",
                 "a checksum set through the untyped route (with_qualifier(\"checksum\", ...)) in a non-canonical spelling: the built PURL keeps the raw spelling and changes in the round trip"),
    "r12c16-3": ("C16", "Same idea as r7c12-2, written independently for C16: decode_qualifiers splits at '&' and ';' while the formatter leaves ';' unescaped.",
                 "a literal ';' in a qualifier value: the library's own output is refused, or silently becomes two qualifiers"),
    "r13c12-1": ("C12", "Checksum canonicalisation moves out of build() into with_qualifier (for the key checksum) and the end of the parser's decode_qualifiers.",
                 "the raw text reaching the builder by another route: parts.qualifiers through Entry / insert / IndexMut / get_mut (also after into_builder()), Qualifiers::try_from_iter, or a finish hook that sets a checksum"),
    "r13c12-2": ("C12", "Checksum::get::<T>() filters out an empty digest before decoding, so it answers None for an entry that get_raw, iter and the text still show.",
                 "an entry with zero bytes read through the decoding accessor get::<T>()"),
    "r13c12-3": ("C12", "The text conversion refuses algorithm names that are not printable ASCII (is_ascii_graphic) next to its hex check; build() and the parser go through the same conversion.",
                 "a name with a space, a control character or a non-ASCII character (sha 1, é, %C3%89)"),
    "r13c14-1": ("C14", "from_str checks starts_with(\"pkg:\") and then trim_start_matches(\"pkg:\") instead of stripping the prefix once.",
                 "an input whose scheme is immediately repeated: for pkg:pkg:npm/name the conversion receives npm and a PURL is produced, where the type as written (pkg:npm) is invalid"),
    "r13c14-2": ("C14", "is_valid_package_type and is_valid_qualifier_name are folded into one helper whose common special characters are . - _.",
                 "an underscore in the type: pkg:ab_cd/name reaches the user's conversion and hook instead of being refused first"),
    "r13c14-3": ("C14", "The escape sets are rebuilt through a const helper over a shared list and the query set silently loses '&' (a regression of fix 4ab7c81).",
                 "a '&' in a qualifier value, e.g. one written by the hook: reported correctly by the accessors, printed raw"),
    "r13c16-1": ("C16", "Display renders '@version' into a SmallString, writes it with one write_str and .expect()s the result.",
                 "a PURL with a version and a writer / formatter that fails inside the version piece: a panic instead of Err"),
    "r13c16-2": ("C16", "A new deserialize_in_place visitor keeps the existing value when its canonical text eq_ignore_ascii_case the incoming string.",
                 "the in-place entry point (directly, or through a reused Vec element) over an existing value that differs from the incoming string only in ASCII case"),
    "r13c16-3": ("C16", "from_str is split into parse_builder + build(); a new visit_borrowed_str assembles the PURL from the builder's fields without build().",
                 "a deserializer that hands the string over borrowed (from_str / from_slice without escapes, &Value, BorrowedStrDeserializer) and an input that is not canonical already"),
}


def table(path):
    if not os.path.exists(path):
        return {}
    with open(path, newline="") as f:
        rows = list(csv.reader(f, delimiter="\t"))
    head, rows = rows[0], rows[1:]
    return {r[0]: dict(zip(head, r)) for r in rows if r}


def main():
    verified = table(os.path.join(ROOT, "VERIFIED.tsv"))
    results = table(os.path.join(ROOT, "RESULTS.tsv"))
    first = table(os.path.join(ROOT, "RESULTS-first-version.tsv"))
    before2 = table(os.path.join(ROOT, "RESULTS-round2-before-strengthening.tsv"))
    before3 = table(os.path.join(ROOT, "RESULTS-round3-before-strengthening.tsv"))
    before4 = table(os.path.join(ROOT, "RESULTS-round4-before-strengthening.tsv"))
    before5 = table(os.path.join(ROOT, "RESULTS-round5-before-strengthening.tsv"))
    before6 = table(os.path.join(ROOT, "RESULTS-round6-before-strengthening.tsv"))
    before7 = table(os.path.join(ROOT, "RESULTS-round7-before-strengthening.tsv"))
    before8 = table(os.path.join(ROOT, "RESULTS-round8-before-strengthening.tsv"))
    before9 = table(os.path.join(ROOT, "RESULTS-round9-before-strengthening.tsv"))
    before10 = table(os.path.join(ROOT, "RESULTS-round10-before-strengthening.tsv"))
    before11 = table(os.path.join(ROOT, "RESULTS-round11-before-strengthening.tsv"))
    before12 = table(os.path.join(ROOT, "RESULTS-round12-before-strengthening.tsv"))
    before13 = table(os.path.join(ROOT, "RESULTS-round13-before-strengthening.tsv"))
    for name, (prop, what, needs) in sorted(DESC.items()):
        d = os.path.join(ROOT, name)
        if not os.path.isdir(d):
            continue
        v = verified.get(name, {})
        r = results.get(name, {})
        f = first.get(name, {})
        b2 = before2.get(name, {})
        b3 = before3.get(name, {})
        b4 = before4.get(name, {})
        b5 = before5.get(name, {})
        b6 = before6.get(name, {})
        b7 = before7.get(name, {})
        b8 = before8.get(name, {})
        b9 = before9.get(name, {})
        b10 = before10.get(name, {})
        b11 = before11.get(name, {})
        b12 = before12.get(name, {})
        b13 = before13.get(name, {})
        meta = {
            "id": name,
            "property_broken": prop,
            "origin": f"fresh sub-agent '{name.split('-')[0]}', change #{name.split('-')[1]}; it was given only the text of {prop} and a scratch worktree of /repo, nothing from /verif" + ("; round 2: it was also told which ideas round 1 had produced and asked for different ones" if name.startswith("r2") else "") + ("; round 3: it was also told which ideas rounds 1 and 2 had produced, and pointed at rarely exercised public API paths, call order, thresholds and continued use after a failure" if name.startswith("r3") else "") + ("; round 4: told the ideas of rounds 1-3 and asked to read the code paths end to end for small-effect defects" if name.startswith("r4") else "") + ("; round 5: told the ideas of rounds 1-4, with a focus per property: hash order / entry count / call sequences (C12), combinations of conversion, hook and input shape (C14), misbehaving sinks and sources only (C16)" if name.startswith("r5") else "") + ("; round 6: told the ideas of rounds 1-5 and asked to widen the search to the whole crate and to single build configurations" if name.startswith("r6") else "") + ("; round 7: told the ideas of rounds 1-6 and pointed at semantic slips (escaping sets, separators, parser/formatter and builder/parser asymmetries, type parameters, into_builder state, error paths)" if name.startswith("r7") else "") + ("; round 8: told the ideas of rounds 1-7" if name.startswith("r8") else "") + ("; round 9: told the ideas of rounds 1-8 (the C16 agent of this round did not deliver)" if name.startswith("r9") else "") + ("; round 10: told the ideas of rounds 1-9 (the C16 agent of this round did not deliver)" if name.startswith("r10") else "") + ("; round 13: three agents (C12, C14, C16), three changes each, told the ideas of rounds 1-12 and given a focus (PURL-level half of C12, the call protocol of C14, the I/O side of C16)" if name.startswith("r13") else "") + ("; round 12: three agents (C12, C14, C16), three changes each, told the ideas of rounds 1-11" if name.startswith("r12") else "") + ("; round 11: C16 only, split into a deserialise-side and a serialise-side agent, two changes each" if name.startswith("r11") else ""),
            "change": what,
            "needs_in_order_to_manifest": needs,
            "files": {"patch": "patch.diff", "demonstration": "demo.rs (drop into purl/tests/)", "author_notes": "notes.md"},
            "confirmed_independently": {
                "how": "tools/verify_seeded.sh in a scratch worktree of /repo HEAD (removed afterwards)",
                "demo_without_patch": v.get("demo_without_patch"),
                "workspace_suite_with_patch": v.get("suite_with_patch"),
                "serde_build_with_patch": v.get("serde_build_with_patch"),
                "demo_with_patch": v.get("demo_with_patch"),
                "verdict": v.get("verdict"),
                "commands": [
                    "git -C /repo worktree add --detach /tmp/wt-verify-seeded HEAD",
                    "cp demo.rs purl/tests/seeded_demo.rs; cargo test -p purl [--features serde] --test seeded_demo --offline   # must pass",
                    "git apply patch.diff; cargo test --workspace --no-fail-fast --offline   # must pass, demo file absent",
                    "cargo build -p purl --features serde --offline   # must build",
                    "cargo test -p purl [--features serde] --test seeded_demo --offline   # must fail",
                ],
            },
            "quick_checks_with_patch_applied_to_repo": {
                "how": "git -C /repo apply patch.diff; ./check <ID> --tier quick for all three IDs; git -C /repo checkout -- .   (tools/run_mutants.sh /verif/seeded)",
                "baseline_suite": r.get("baseline"),
                "C12": r.get("C12"),
                "C14": r.get("C14"),
                "C16": r.get("C16"),
                "verdict": r.get("verdict"),
            },
        }
        if b13:
            meta["checks_when_round_13_arrived"] = {
                "note": "round 13 (three agents x three changes), result with the checks at 1d534f6, measured in a scratch copy of /repo and /verif (suite run: tools/verify_seeded.sh)",
                "C12": b13.get("C12"), "C14": b13.get("C14"), "C16": b13.get("C16"), "verdict": b13.get("verdict"),
            }
        if b12:
            meta["checks_when_round_12_arrived"] = {
                "note": "round 12 (three agents x three changes), result with the checks at 5daa08a. All nine were reported by at least one check; r12c12-3 and r12c16-1 were reported only by C14, not by the check of the property they were written against, which is why C12's respelling now also uses titlecase letters and C16's builder documents overwrite a qualifier value in place (commit 1d534f6)",
                "C12": b12.get("C12"), "C14": b12.get("C14"), "C16": b12.get("C16"), "verdict": b12.get("verdict"),
            }
        if b11:
            meta["checks_when_round_11_arrived"] = {
                "note": "round 11 (C16 only, two agents x two changes). The lane through serde's Formatter serializer with width / precision flags was added after reading the agent's summary of r11c16b-1 and before any measurement, so that change counts as missed on arrival",
                "C12": b11.get("C12"), "C14": b11.get("C14"), "C16": b11.get("C16"), "verdict": b11.get("verdict"),
            }
        if b10:
            meta["checks_when_round_10_arrived"] = {
                "note": "result with the checks that met round 10 (nothing was changed afterwards)",
                "C12": b10.get("C12"), "C14": b10.get("C14"), "C16": b10.get("C16"), "verdict": b10.get("verdict"),
            }
        if b9:
            meta["checks_before_they_were_strengthened_for_round_9"] = {
                "note": "result with the checks at commit 0341af4 (the version of the final consistent measurement, which met round 9)",
                "C12": b9.get("C12"), "C14": b9.get("C14"), "C16": b9.get("C16"), "verdict": b9.get("verdict"),
            }
        if b8:
            meta["checks_before_they_were_strengthened_for_round_8"] = {
                "note": "result with the checks at commit 2b0ba2f (the version that met round 8)",
                "C12": b8.get("C12"), "C14": b8.get("C14"), "C16": b8.get("C16"), "verdict": b8.get("verdict"),
            }
        if b7:
            meta["checks_before_they_were_strengthened_for_round_7"] = {
                "note": "result with the checks at commit ee111ed (the version that met round 7)",
                "C12": b7.get("C12"), "C14": b7.get("C14"), "C16": b7.get("C16"), "verdict": b7.get("verdict"),
            }
        if b6:
            meta["checks_before_they_were_strengthened_for_round_6"] = {
                "note": "result with the checks at commit 4a03e96 (the version that met round 6)",
                "C12": b6.get("C12"), "C14": b6.get("C14"), "C16": b6.get("C16"), "verdict": b6.get("verdict"),
            }
        if b5:
            meta["checks_before_they_were_strengthened_for_round_5"] = {
                "note": "result with the checks at commit acf2988 (the version that met round 5); exit2 = the change did not build under the hook wrapper of that time",
                "C12": b5.get("C12"), "C14": b5.get("C14"), "C16": b5.get("C16"), "verdict": b5.get("verdict"),
            }
        if b4:
            meta["checks_when_round_4_arrived"] = {
                "note": "result with the checks at commit c0ffee (the version that met round 4; nothing was missed, a few own-property lanes were added afterwards)".replace("c0ffee", "4cb66c9"),
                "C12": b4.get("C12"), "C14": b4.get("C14"), "C16": b4.get("C16"), "verdict": b4.get("verdict"),
            }
        if b3:
            meta["checks_before_they_were_strengthened_for_round_3"] = {
                "note": "result with the checks at commit 294ea8e (the version when round 3 of seeded changes was commissioned)",
                "C12": b3.get("C12"), "C14": b3.get("C14"), "C16": b3.get("C16"), "verdict": b3.get("verdict"),
            }
        if b2:
            meta["checks_before_they_were_strengthened_for_round_2"] = {
                "note": "result with the checks at commit d6c5350 (after round 1, before round 2 of seeded changes)",
                "C12": b2.get("C12"), "C14": b2.get("C14"), "C16": b2.get("C16"), "verdict": b2.get("verdict"),
            }
        if f:
            meta["first_version_of_the_checks"] = {
                "note": "result with the checks as first committed (057158a), before they were strengthened",
                "C12": f.get("C12"), "C14": f.get("C14"), "C16": f.get("C16"), "verdict": f.get("verdict"),
            }
        with open(os.path.join(d, "meta.json"), "w") as out:
            json.dump(meta, out, indent=1, ensure_ascii=False)
            out.write("\n")
    print("meta.json written for", len(DESC), "seeded changes")


if __name__ == "__main__":
    main()
