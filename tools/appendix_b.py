#!/usr/bin/env python3
"""Render Appendix B of DESIGN.md from mutants/RESULTS.tsv and seeded/RESULTS.tsv (+ the results of
the first version of the checks), and splice it into DESIGN.md after the Appendix B heading."""
import csv
import json
import os
import re

V = "/verif"


def table(path):
    if not os.path.exists(path):
        return []
    with open(path, newline="") as f:
        rows = list(csv.reader(f, delimiter="\t"))
    head = rows[0]
    return [dict(zip(head, r)) for r in rows[1:] if r]


def short(cell):
    if cell is None:
        return "-"
    return cell.replace("VIOLATION:", "").replace("held", "—")


def main():
    out = []
    out.append("All numbers in this appendix were produced by `tools/run_mutants.sh` (apply the patch to `/repo`, run the")
    out.append("repository's suite with the guard off, run `./check <ID> --tier quick` for all three IDs, undo the")
    out.append("patch) and `tools/verify_seeded.sh` (scratch worktree). `—` = the check held (exit 0); otherwise the")
    out.append("violation code of the first `VIOLATION` line (exit 1). A patch whose suite run fails, or that does not")
    out.append("build with `--features serde` and the hook, is marked *invalid* - it is no evidence of reach beyond the")
    out.append("tests, although the checks report it as well.")
    out.append("")
    first = {r["name"]: r for r in table(f"{V}/seeded/RESULTS-first-version.tsv")}
    first.update({r["name"]: r for r in table(f"{V}/seeded/RESULTS-round2-before-strengthening.tsv")})
    first.update({r["name"]: r for r in table(f"{V}/seeded/RESULTS-round3-before-strengthening.tsv")})
    first.update({r["name"]: r for r in table(f"{V}/seeded/RESULTS-round4-before-strengthening.tsv")})
    first.update({r["name"]: r for r in table(f"{V}/seeded/RESULTS-round5-before-strengthening.tsv")})
    first.update({r["name"]: r for r in table(f"{V}/seeded/RESULTS-round6-before-strengthening.tsv")})
    first.update({r["name"]: r for r in table(f"{V}/seeded/RESULTS-round7-before-strengthening.tsv")})
    first.update({r["name"]: r for r in table(f"{V}/seeded/RESULTS-round8-before-strengthening.tsv")})
    first.update({r["name"]: r for r in table(f"{V}/seeded/RESULTS-round9-before-strengthening.tsv")})
    first.update({r["name"]: r for r in table(f"{V}/seeded/RESULTS-round10-before-strengthening.tsv")})
    first.update({r["name"]: r for r in table(f"{V}/seeded/RESULTS-round11-before-strengthening.tsv")})
    first.update({r["name"]: r for r in table(f"{V}/seeded/RESULTS-round12-before-strengthening.tsv")})
    first.update({r["name"]: r for r in table(f"{V}/seeded/RESULTS-round13-before-strengthening.tsv")})
    out.append("### B.1 Seeded changes written by independent sub-agents (`seeded/<id>/`)")
    out.append("")
    out.append("Each sub-agent got only the text of one property and its own scratch worktree of `/repo` (nothing from")
    out.append("`/verif`), and was asked for changes that compile, keep the whole suite green and need something specific")
    out.append("to manifest, with a demonstration that fails with the change and passes without it. Every change below")
    out.append("was confirmed independently (demo passes on HEAD, suite passes with the patch, `--features serde` builds,")
    out.append("demo fails with the patch: `seeded/VERIFIED.tsv`). *before* = the checks as they were when the change")
    out.append("arrived (round 1, ids without prefix: the first committed version `057158a`; round 2, ids `r2...`:")
    out.append("the version after round 1; round 3, ids `r3...`: the version when round 3 was commissioned, `294ea8e`;")
    out.append("round 4, ids `r4...`: the version that met it, nothing missed; round 5, ids `r5...`: likewise the version that met")
    out.append("it - r5c12-1 did not even build under the hook wrapper of that time, which is why the wrapper now offers")
    out.append("std's inherent methods, hook commit `15f5dd0`; rounds 6 to 9, ids `r6...` to `r9...`: the version that met them; all rows under *now*, and the tables")
    out.append("of B.2 and B.3, were measured once more in one go with the checks as committed at `0e96565`; the four rows of")
    out.append("round 11 (C16 only) one commit later, `8fb0bb7`, which added only the lane r11c16b-1 needs - that lane was corrected once more afterwards")
    out.append("(DESIGN.md 7, *a false alarm of my own making*), and every row whose detection depends on C16, all of B.3 and")
    out.append("the silent C16 rows of B.2 were measured again for C16 against the corrected check: same outcomes;")
    out.append("round 12, ids `r12...`, nine changes: met by the checks at `5daa08a`, all nine reported, but r12c12-3 and r12c16-1 only by C14")
    out.append("and not by the check of the property they were written against - C12 then got titlecase letters in its respelling and C16 an")
    out.append("in-place edit of a qualifier value in its builder documents, commit `1d534f6`; the nine rows, all of B.3 and the silent rows of B.2")
    out.append("were measured again for C12 and C16 against that commit, in scratch copies of `/repo` and `/verif`, C14 being unchanged;")
    out.append("round 13, ids `r13...`, nine changes: met by the checks at `1d534f6`, eight reported, r13c16-2 missed and r13c12-1 reported only by C14 and C16 -")
    out.append("C12's builder lane then also got the routes that write the checksum straight into `parts.qualifiers`, commit `dcc6b22`, and C16's in-place")
    out.append("lanes a previous value related to the incoming string, commit `1e09cbc`; the C12 column of B.3 and of the silent rows of B.2 was measured once")
    out.append("more against the former where it had been measured before it, the C16 column against the latter for the nine patches that touch the")
    out.append("`Deserialize` implementation - DESIGN.md 7 says why those suffice);")
    out.append("*now* = the checks as they stand. Round 2 and 3 sub-agents were also told which ideas the earlier rounds")
    rows = table(f"{V}/seeded/RESULTS.tsv")
    n_missed = sum(1 for r in rows if r["name"] in first and "caught" not in first[r["name"]]["verdict"] and r["name"] != "r10c14-1")
    out.append(f"had produced and asked for different, more devious ones. {len(rows)} changes in all; every one missed by an")
    out.append(f"earlier version ({n_missed}) led to a new lane, fault kind or workload - never to a relaxed oracle.")
    out.append("One change, r10c14-1, is deliberately **not** reported: the parser refuses a malformed checksum before it")
    out.append("calls the conversion and the hook. C14 bounds the number of calls from above (\"at most once per parse\") and")
    out.append("fixes the order of hook and generic checks inside `build()`; an additional, earlier refusal contradicts no")
    out.append("clause of it, and an oracle demanding that the hook be reached would be a false alarm on a parser that")
    out.append("validates early (DESIGN.md 4.2, *Not asserted*). Its author sees a breach of \"the generic checks run after")
    out.append("it\"; I read that clause as an order, not as a promise that nothing is checked before.")
    out.append("")
    out.append("| id | breaks | what it needs | suite with patch | before | now: C12 | now: C14 | now: C16 |")
    out.append("|---|---|---|---|---|---|---|---|")
    for r in table(f"{V}/seeded/RESULTS.tsv"):
        name = r["name"]
        meta = {}
        mp = f"{V}/seeded/{name}/meta.json"
        if os.path.exists(mp):
            meta = json.load(open(mp))
        f = first.get(name)
        fv = "not yet written" if f is None else ("caught" if "caught" in f["verdict"] else "**missed**")
        out.append(
            f"| {name} | {meta.get('property_broken', r['property'])}: {meta.get('change', '')} | {meta.get('needs_in_order_to_manifest', '')} | {r['baseline']} | {fv} | {short(r['C12'])} | {short(r['C14'])} | {short(r['C16'])} |"
        )
    out.append("")
    out.append("### B.2 My own patches (`mutants/*.diff`, generated by `tools/make_mutants.py`)")
    out.append("")
    out.append("| patch | expectation | suite with patch | C12 | C14 | C16 | verdict |")
    out.append("|---|---|---|---|---|---|---|")
    for r in table(f"{V}/mutants/RESULTS.tsv"):
        verdict = r["verdict"].replace("INVALID-MUTANT", "*invalid*")
        out.append(f"| {r['name']} | {r['expectation']} | {r['baseline']} | {short(r['C12'])} | {short(r['C14'])} | {short(r['C16'])} | {verdict} |")
    out.append("")
    out.append("### B.3 Behaviour-preserving changes written by independent sub-agents (`silent/<id>/`)")
    out.append("")
    out.append("The reverse experiment, in three rounds of three sub-agents (one per property, again given only the property text")
    out.append("and a scratch worktree) were asked for realistic refactorings that do **not** break the property but change")
    out.append("as much as possible underneath it - other data structures and algorithms, internal steps in another order,")
    out.append("output in one write call instead of many, `serialize_str` instead of `collect_str`, other error values and")
    out.append("error precedence where the property names no error, extra accessor calls, correct fast paths, sorted")
    out.append("`iter()`. Each comes with the agent's clause-by-clause argument (`notes.md`) and was differential-tested by")
    out.append("its author against HEAD. A checker that demands more than the property states would raise a false alarm")
    out.append("on these; none of the three checks did (rounds s1 and s2 measured in the second full measurement and again")
    out.append("for C16 after its last change; round s3 measured against the final checks).")
    out.append("")
    out.append("| id | suite with patch | C12 | C14 | C16 | verdict |")
    out.append("|---|---|---|---|---|---|")
    for r in table(f"{V}/silent/RESULTS.tsv"):
        out.append(f"| {r['name']} | {r['baseline']} | {short(r['C12'])} | {short(r['C14'])} | {short(r['C16'])} | {r['verdict']} |")
    out.append("")
    text = "\n".join(out) + "\n"
    design = open(f"{V}/DESIGN.md").read()
    head = "## Appendix B — sensitivity and silence results\n"
    at = design.index(head) + len(head)
    # Keep anything after a later "## " heading (there is none today).
    rest = design[at:]
    m = re.search(r"^## ", rest, flags=re.M)
    tail = rest[m.start():] if m else ""
    open(f"{V}/DESIGN.md", "w").write(design[:at] + "\n" + text + tail)
    print("Appendix B written,", len(out), "lines")


if __name__ == "__main__":
    main()
